// Package simrt is the deterministic scheduler the rewritten grog sources run under.
//
// With no scheduler installed (S == nil) every helper degrades to the plain Go operation
// ("pass-through mode"), so the repository's own unit tests still run on rewritten code.
package simrt

import (
	"fmt"
	"hash/fnv"
	"os"
	"runtime"
	"runtime/debug"
	"sort"
	"strings"
	"sync"
	"testing/synctest"
	"time"
	"unsafe"
)

type taskState int

const (
	stRunning taskState = iota
	stParked
	stLockWait
	stDone
)

// Proc is a simulated operating-system process: a group of tasks with a pid.
type Proc struct {
	Pid      int
	Name     string
	dead     bool
	ExitCode int
	// Cause is "" while alive, then "return", "exit", "crash", "abort".
	Cause  string
	doneCh chan struct{}
	closed bool
	// Data is free for the harness / simos (environment of the process).
	Data any
}

// Dead reports whether the process has exited or was killed.
func (p *Proc) Dead() bool {
	s := S
	if s == nil {
		return false
	}
	s.mu.Lock()
	defer s.mu.Unlock()
	return p.dead
}

// Task is one controlled goroutine.
type Task struct {
	ID     string
	seq    int
	Proc   *Proc
	wake   chan struct{}
	state  taskState
	site   string
	kill   bool
	exitng bool
	noPark int
	nchild int
	lockAt unsafe.Pointer
	lockOK bool
	isRoot bool
	prio   int
	// Origin is the site of the go statement (or pool submission) that created the task.
	Origin string
	// sleepUntil: the task is not scheduled before this step while any other task is runnable
	// (seeded delay injected at selects and task starts: lets several select cases become
	// ready, lets a new goroutine lose the race against everything it was started alongside)
	sleepUntil int
}

// Drowse delays the calling task for a drawn number of scheduler steps with a small drawn
// probability. Called by the sim-controlled select and at task start.
func (s *Sched) drowse(t *Task, kind string) {
	if s.DelayPermille == 0 || t == nil || t.noPark > 0 {
		return
	}
	if s.C.ChooseBiased(2, s.DelayPermille*2, "delay:"+kind) == 1 {
		n := delaySteps(s.C)
		s.mu.Lock()
		t.sleepUntil = s.steps + n
		s.mu.Unlock()
		Probe("delayed-" + kind)
	}
}

// Violation is a property violation or infrastructure problem found during a run.
type Violation struct {
	Prop      string `json:"prop"`
	Class     string `json:"class"`
	Signature string `json:"signature"`
	Detail    string `json:"detail"`
	Step      int    `json:"step"`
	Infra     bool   `json:"infra,omitempty"`
}

// Step is one scheduler decision.
type Step struct {
	N    int
	Task string
	Site string
}

// Config bounds a run.
type Config struct {
	HangBound time.Duration // simulated idle time after which the run is declared hung
	MaxSteps  int
	MaxSim    time.Duration // total simulated time
	KeepTrace bool
}

// Sched is one run's scheduler.
type Sched struct {
	mu      sync.Mutex
	C       *Choices
	cfg     Config
	tasks   []*Task
	byGoid  sync.Map
	nextSeq int
	nextPid int
	procs   []*Proc
	wakeCh  chan struct{}
	last    *Task
	steps   int
	start   time.Time
	aborted bool
	root    *Task

	Violations []Violation
	Trace      []Step
	hash       uint64
	Switches   int
	Probes     map[string]int
	Faults     map[string]int

	maps map[unsafe.Pointer]*mapInfo

	// Strategy: 0 random walk (SwitchPermille), 1 priority based (PCT-like).
	Strategy  int
	chgPerMil int
	lowPrio   int
	// DelayPermille: probability (per mille) of a seeded delay at a select / task start
	DelayPermille int

	// OnStep, if set, runs on the scheduler goroutine before every decision (all tasks
	// quiescent). Used for invariants and for step-indexed fault injection.
	OnStep func(step int)
	// OnTaskEnd, if set, runs on the ending task's goroutine when a task function has returned.
	OnTaskEnd func(t *Task)
}

// S is the installed scheduler (nil = pass-through).
var S *Sched

func goid() int64 {
	var buf [64]byte
	n := runtime.Stack(buf[:], false)
	// "goroutine 123 ["
	var id int64
	for i := 10; i < n; i++ {
		c := buf[i]
		if c < '0' || c > '9' {
			break
		}
		id = id*10 + int64(c-'0')
	}
	return id
}

func cur() *Task {
	s := S
	if s == nil {
		return nil
	}
	if v, ok := s.byGoid.Load(goid()); ok {
		return v.(*Task)
	}
	return nil
}

// Cur returns the calling task (nil outside the simulation).
func Cur() *Task { return cur() }

// CurProc returns the calling task's process (nil if none).
func CurProc() *Proc {
	if t := cur(); t != nil {
		return t.Proc
	}
	return nil
}

// New creates a scheduler. Must be called inside a synctest bubble.
func New(c *Choices, cfg Config) *Sched {
	if cfg.HangBound == 0 {
		cfg.HangBound = 2 * time.Hour
	}
	if cfg.MaxSteps == 0 {
		cfg.MaxSteps = 2_000_000
	}
	if cfg.MaxSim == 0 {
		cfg.MaxSim = 1000 * time.Hour
	}
	return &Sched{
		C:       c,
		cfg:     cfg,
		wakeCh:  make(chan struct{}, 1),
		start:   time.Now(),
		Probes:  map[string]int{},
		Faults:  map[string]int{},
		maps:    map[unsafe.Pointer]*mapInfo{},
		nextPid: 1000,
		hash:    14695981039346656037,
	}
}

// Probe counts that a rare condition was reached.
func Probe(name string) {
	if s := S; s != nil {
		s.mu.Lock()
		s.Probes[name]++
		s.mu.Unlock()
	}
}

// Fault counts that a fault of the given kind actually fired.
func Fault(kind string) {
	if s := S; s != nil {
		s.mu.Lock()
		s.Faults[kind]++
		s.mu.Unlock()
	}
}

// Report records a violation found by an oracle.
func (s *Sched) Report(v Violation) {
	s.mu.Lock()
	s.addLocked(v)
	s.mu.Unlock()
}

// addLocked appends v unless the same (prop, class, signature) was already recorded.
func (s *Sched) addLocked(v Violation) {
	for _, o := range s.Violations {
		if o.Prop == v.Prop && o.Class == v.Class && o.Signature == v.Signature {
			return
		}
	}
	v.Step = s.steps
	s.Violations = append(s.Violations, v)
}

// Abort ends the run: every task is killed at its next point.
func (s *Sched) Abort() {
	s.mu.Lock()
	s.aborted = true
	s.mu.Unlock()
}

// Steps returns the number of scheduler decisions so far (the global event sequence number).
func (s *Sched) Steps() int {
	s.mu.Lock()
	defer s.mu.Unlock()
	return s.steps
}

// SimElapsed is the simulated time since the run began.
func (s *Sched) SimElapsed() time.Duration { return time.Since(s.start) }

// TraceHash identifies the execution (tasks, sites, order).
func (s *Sched) TraceHash() string { return fmt.Sprintf("%016x", s.hash) }

func (s *Sched) notify() {
	select {
	case s.wakeCh <- struct{}{}:
	default:
	}
}

func (s *Sched) newTask(parent *Task, proc *Proc) *Task {
	s.mu.Lock()
	defer s.mu.Unlock()
	t := &Task{wake: make(chan struct{}), Proc: proc, seq: s.nextSeq}
	s.nextSeq++
	if parent == nil {
		t.ID = fmt.Sprintf("%d", len(s.procs))
	} else {
		t.ID = fmt.Sprintf("%s.%d", parent.ID, parent.nchild)
		parent.nchild++
		if proc == nil {
			t.Proc = parent.Proc
		}
	}
	if s.Strategy == 1 {
		t.prio = 1 + s.C.Choose(1000, "prio")
	}
	s.tasks = append(s.tasks, t)
	return t
}

// InitStrategy draws the scheduling strategy of this run from the choice stream.
func (s *Sched) InitStrategy() {
	s.DelayPermille = []int{0, 10, 40}[s.C.Choose(3, "delay-rate")]
	switch s.C.Choose(4, "strategy") {
	case 0:
		s.C.SwitchPermille = 300
	case 1:
		s.C.SwitchPermille = 1000
	case 2:
		s.C.SwitchPermille = 60
	case 3:
		s.Strategy = 1
		s.chgPerMil = []int{0, 1, 4}[s.C.Choose(3, "pct-rate")]
	}
}

// NewProc registers a simulated process.
func (s *Sched) NewProc(name string) *Proc {
	s.mu.Lock()
	defer s.mu.Unlock()
	p := &Proc{Pid: s.nextPid, Name: name, doneCh: make(chan struct{})}
	s.nextPid += 7
	s.procs = append(s.procs, p)
	return p
}

// StartProc runs main as the root task of a new process and returns it. When main returns
// the process exits with code 0 and its remaining tasks are killed, as in a real Go program.
func (s *Sched) StartProc(name string, main func()) *Proc {
	p := s.NewProc(name)
	parent := cur()
	t := s.newTask(parent, p)
	t.isRoot = true
	s.startTask(t, "proc:"+name, func() {
		main()
		s.killProc(p, 0, "return")
	})
	return p
}

// WaitProc blocks the calling task until the process is dead and all its parked tasks are gone.
func (s *Sched) WaitProc(p *Proc) {
	Yield("waitproc")
	<-p.doneCh
	Yield("waitproc")
}

// killProc marks the process dead. Its tasks are unwound by the scheduler.
func (s *Sched) killProc(p *Proc, code int, cause string) {
	s.mu.Lock()
	first := !p.dead
	if !p.dead {
		p.dead = true
		p.ExitCode = code
		p.Cause = cause
	}
	s.mu.Unlock()
	if first && OnProcDead != nil {
		OnProcDead(p)
	}
}

// OnProcDead, if set, is called once when a simulated process dies (exit, return, crash):
// the simulated OS releases what the process held (open files).
var OnProcDead func(p *Proc)

// Exit terminates the calling task's process with the given code (simulated os.Exit).
func Exit(code int) {
	s := S
	t := cur()
	if s == nil || t == nil || t.Proc == nil {
		panic(fmt.Sprintf("simrt.Exit(%d) outside a simulated process", code))
	}
	s.killProc(t.Proc, code, "exit")
	t.exitng = true
	runtime.Goexit()
}

// Crash kills process p (kill -9). Callable from the scheduler's OnStep or any task.
func (s *Sched) Crash(p *Proc) {
	s.killProc(p, 137, "crash")
	if t := cur(); t != nil && t.Proc == p && t.noPark == 0 {
		t.exitng = true
		runtime.Goexit()
	}
}

func (s *Sched) startTask(t *Task, site string, f func()) {
	go func() {
		s.byGoid.Store(goid(), t)
		defer s.finish(t)
		t.parkAt("start:" + site)
		f()
	}()
}

// Drowse is the exported hook for sim-controlled blocking points.
func Drowse(kind string) {
	if s := S; s != nil {
		s.drowse(cur(), kind)
	}
}

func (s *Sched) finish(t *Task) {
	if r := recover(); r != nil {
		stack := string(debug.Stack())
		s.Report(Violation{
			Prop:      "C04",
			Class:     "panic",
			Signature: fmt.Sprintf("%v @ %s", r, panicSite(stack)),
			Detail:    fmt.Sprintf("task %s: panic: %v\n%s", t.ID, r, stack),
		})
		s.Abort()
	}
	s.byGoid.Delete(goid())
	if h := s.OnTaskEnd; h != nil {
		h(t)
	}
	s.mu.Lock()
	t.state = stDone
	s.mu.Unlock()
	s.notify()
}

// panicSite extracts the first grog frame of a panic stack.
func panicSite(stack string) string {
	lines := strings.Split(stack, "\n")
	for i, l := range lines {
		if strings.HasPrefix(l, "grog/internal/") && !strings.Contains(l, "/zzsim/") && !strings.Contains(l, "/zzharness") {
			fn := l
			if j := strings.LastIndex(fn, "("); j > 0 {
				fn = fn[:j]
			}
			_ = i
			return fn
		}
	}
	return "?"
}

// Go starts f as a new task (rewritten `go` statement).
func Go(site string, f func()) {
	s := S
	if s == nil {
		go f()
		return
	}
	parent := cur()
	if parent == nil {
		uncontrolled(site)
	}
	t := s.newTask(parent, nil)
	t.Origin = site
	if s.DelayPermille > 0 && s.C.ChooseBiased(2, s.DelayPermille, "delay:start") == 1 {
		t.sleepUntil = s.steps + delaySteps(s.C)
		Probe("delayed-start")
	}
	if dbg := debugLowPrio; dbg != "" && strings.Contains(site, dbg) {
		t.prio = -1 << 30
	}
	s.startTask(t, site, f)
}

// debugLowPrio (env SIM_DEBUG_LOWPRIO) starves tasks created at a matching site under the
// priority strategy; used to validate that a suspected race is reachable at all.
var debugLowPrio = os.Getenv("SIM_DEBUG_LOWPRIO")

func uncontrolled(site string) {
	panic("SIMRT-INFRA: uncontrolled goroutine reached sim point " + site)
}

// Yield is a sim point: the task parks until the scheduler releases it.
func Yield(site string) {
	s := S
	if s == nil {
		return
	}
	t := cur()
	if t == nil {
		uncontrolled(site)
	}
	if t.noPark > 0 || t.exitng {
		return
	}
	t.parkAt(site)
}

func (t *Task) parkAt(site string) {
	s := S
	s.mu.Lock()
	if t.kill || (t.Proc != nil && t.Proc.dead) || s.aborted {
		s.mu.Unlock()
		t.exitng = true
		runtime.Goexit()
	}
	t.state = stParked
	t.site = site
	s.mu.Unlock()
	s.notify()
	<-t.wake
	if t.kill {
		t.exitng = true
		runtime.Goexit()
	}
}

func (s *Sched) release(t *Task, kill bool) {
	t.state = stRunning
	t.kill = kill
	t.wake <- struct{}{}
}

// Run executes driver as task "0" and schedules until it has finished (or the run is aborted).
func (s *Sched) Run(driver func()) {
	S = s
	defer func() { S = nil }()
	// The scheduler goroutine itself may call instrumented code (never parks).
	me := &Task{ID: "sched", noPark: 1, state: stRunning}
	s.byGoid.Store(goid(), me)
	defer s.byGoid.Delete(goid())

	rootProc := s.NewProc("driver")
	s.root = s.newTask(nil, rootProc)
	s.root.ID = "0"
	s.startTask(s.root, "driver", driver)

	for {
		synctest.Wait()
		select {
		case <-s.wakeCh:
		default:
		}
		s.mu.Lock()
		if s.root.state == stDone {
			s.aborted = true
		}
		// unwind tasks of dead processes / aborted run first (no choice consumed)
		var victim *Task
		anyAlive := false
		for _, t := range s.tasks {
			if t.state == stDone {
				continue
			}
			anyAlive = true
			if (t.state == stParked || t.state == stLockWait) && (s.aborted || (t.Proc != nil && t.Proc.dead)) {
				victim = t
				break
			}
		}
		if victim != nil {
			if victim.Proc != nil && (victim.Proc.Cause == "return" || victim.Proc.Cause == "exit") && victim.Origin != "" && !strings.HasPrefix(victim.Origin, "simexec") {
				s.Probes["killed-at-exit:"+victim.Origin]++
			}
			s.mu.Unlock()
			s.release(victim, true)
			continue
		}
		// signal processes whose parked tasks are all gone
		signalled := false
		for _, p := range s.procs {
			if p.dead && !p.closed {
				p.closed = true
				close(p.doneCh)
				signalled = true
			}
		}
		if signalled {
			s.mu.Unlock()
			continue
		}
		if s.aborted || !anyAlive {
			s.compact()
			s.mu.Unlock()
			return
		}
		if s.steps >= s.cfg.MaxSteps || time.Since(s.start) > s.cfg.MaxSim {
			s.addLocked(Violation{
				Prop:      "C04",
				Class:     "hang",
				Signature: "budget-exhausted",
				Detail:    fmt.Sprintf("steps=%d sim=%v (livelock or unbounded work)\n%s", s.steps, time.Since(s.start), s.blockedLocked()),
			})
			s.aborted = true
			s.mu.Unlock()
			continue
		}
		s.compact()
		runnable := s.runnableLocked()
		s.mu.Unlock()
		if len(runnable) == 0 {
			timer := time.NewTimer(s.cfg.HangBound)
			select {
			case <-s.wakeCh:
				timer.Stop()
			case <-timer.C:
				s.mu.Lock()
				sig, detail := s.hangInfoLocked()
				s.addLocked(Violation{Prop: "C04", Class: "hang", Signature: sig, Detail: detail})
				s.aborted = true
				s.mu.Unlock()
			}
			continue
		}
		if s.OnStep != nil {
			s.OnStep(s.steps)
			s.mu.Lock()
			stale := s.aborted
			for _, t := range runnable {
				if t.Proc != nil && t.Proc.dead {
					stale = true
				}
			}
			s.mu.Unlock()
			if stale {
				continue
			}
		}
		var t *Task
		if s.Strategy == 1 {
			// highest priority first; at a change point the chosen task drops below all others
			t = runnable[0]
			for _, r := range runnable {
				if r.prio > t.prio || (r.prio == t.prio && r.seq < t.seq) {
					t = r
				}
			}
			if len(runnable) > 1 && s.chgPerMil > 0 && s.C.ChooseBiased(2, s.chgPerMil*2, "pct-change") == 1 {
				s.lowPrio--
				t.prio = s.lowPrio
				t = runnable[0]
				for _, r := range runnable {
					if r.prio > t.prio || (r.prio == t.prio && r.seq < t.seq) {
						t = r
					}
				}
			}
		} else {
			t = runnable[s.C.ChooseBiased(len(runnable), s.C.SwitchPermille, "sched")]
		}
		s.mu.Lock()
		s.steps++
		if s.last != nil && s.last != t {
			s.Switches++
		}
		s.last = t
		if s.cfg.KeepTrace {
			s.Trace = append(s.Trace, Step{s.steps, t.ID, t.site})
		}
		h := fnv.New64a()
		fmt.Fprintf(h, "%x|%s|%s", s.hash, t.ID, t.site)
		s.hash = h.Sum64()
		s.mu.Unlock()
		s.release(t, false)
	}
}

// compact drops finished tasks from the list (keeps order).
func (s *Sched) compact() {
	if len(s.tasks) < 64 {
		return
	}
	n := 0
	for _, t := range s.tasks {
		if t.state != stDone {
			s.tasks[n] = t
			n++
		}
	}
	for i := n; i < len(s.tasks); i++ {
		s.tasks[i] = nil
	}
	s.tasks = s.tasks[:n]
}

// runnableLocked: index 0 is the task that ran last (if runnable), then creation order.
func (s *Sched) runnableLocked() []*Task {
	var out, sleepy []*Task
	for _, t := range s.tasks {
		if t.state == stParked || (t.state == stLockWait && t.lockOK) {
			if t.sleepUntil > s.steps {
				sleepy = append(sleepy, t)
			} else {
				out = append(out, t)
			}
		}
	}
	if len(out) == 0 {
		out = sleepy // nothing else can run: delayed tasks run after all
	}
	sort.SliceStable(out, func(i, j int) bool { return out[i].seq < out[j].seq })
	if s.last != nil {
		for i, t := range out {
			if t == s.last {
				copy(out[1:i+1], out[0:i])
				out[0] = t
				break
			}
		}
	}
	return out
}

func (s *Sched) blockedLocked() string {
	var b strings.Builder
	for _, t := range s.tasks {
		if t.state == stDone {
			continue
		}
		st := "blocked-after"
		switch t.state {
		case stParked:
			st = "parked-at"
		case stLockWait:
			st = "lock-wait-at"
		}
		fmt.Fprintf(&b, "  task %s %s %s\n", t.ID, st, t.site)
	}
	return b.String()
}

// hangInfoLocked builds a schedule-independent signature: the sorted set of sites at which
// tasks are blocked.
func (s *Sched) hangInfoLocked() (string, string) {
	set := map[string]int{}
	for _, t := range s.tasks {
		if t.state == stDone {
			continue
		}
		set[t.site]++
	}
	var sites []string
	for k := range set {
		sites = append(sites, k)
	}
	sort.Strings(sites)
	buf := make([]byte, 1<<20)
	n := runtime.Stack(buf, true)
	return "blocked@" + strings.Join(sites, ","), fmt.Sprintf("no task runnable and no timer pending for %v simulated\n%s\n%s", s.cfg.HangBound, s.blockedLocked(), filterStacks(string(buf[:n])))
}

func filterStacks(all string) string {
	var out []string
	for _, g := range strings.Split(all, "\n\n") {
		if strings.Contains(g, "grog/internal/") && !strings.Contains(g, "simrt.(*Sched).Run") {
			lines := strings.Split(g, "\n")
			if len(lines) > 24 {
				lines = lines[:24]
			}
			out = append(out, strings.Join(lines, "\n"))
		}
		if len(out) > 40 {
			break
		}
	}
	return strings.Join(out, "\n\n")
}

func goexit() { runtime.Goexit() }

// liveLocked counts the unfinished tasks of process p.
func (s *Sched) liveLocked(p *Proc) int {
	n := 0
	for _, t := range s.tasks {
		if t.state != stDone && t.Proc == p {
			n++
		}
	}
	return n
}

// ProcByPid looks a simulated process up.
func (s *Sched) ProcByPid(pid int) *Proc {
	s.mu.Lock()
	defer s.mu.Unlock()
	for _, p := range s.procs {
		if p.Pid == pid {
			return p
		}
	}
	return nil
}

// Procs returns the simulated processes created so far.
func (s *Sched) Procs() []*Proc {
	s.mu.Lock()
	defer s.mu.Unlock()
	return append([]*Proc(nil), s.procs...)
}

// Aborted reports whether the run is being torn down.
func (s *Sched) Aborted() bool {
	s.mu.Lock()
	defer s.mu.Unlock()
	return s.aborted
}

// delaySteps draws a delay on a logarithmic scale: runs range from tens to hundreds of
// thousands of steps.
func delaySteps(c *Choices) int {
	scale := []int{30, 300, 3000, 30000}[c.Choose(4, "delay-scale")]
	return 1 + c.Choose(scale, "delay-steps")
}
