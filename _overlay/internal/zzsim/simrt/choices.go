package simrt

import (
	"sync"
)

// Choice is one recorded decision of a run.
type Choice struct {
	Kind string `json:"k"`
	N    int    `json:"n"`
	V    int    `json:"v"`
}

// Choices is the single source of nondeterminism of a run. In random mode values are
// drawn from a PCG stream seeded from the run seed; in replay mode they are taken from a
// vector (missing entries are 0, out-of-range values are reduced modulo n), so any integer
// vector is a valid execution.
type Choices struct {
	mu     sync.Mutex
	state  uint64
	inc    uint64
	replay []int
	isRep  bool
	pos    int
	Rec    []Choice
	// SwitchPermille: probability (per mille) that a scheduling choice is drawn uniformly
	// instead of taking 0 ("keep running the current task").
	SwitchPermille int
	// FaultPermille: probability (per mille) that a yes/no fault decision is drawn "yes"
	// while budget remains.
	NoRecord bool
}

func splitmix(x uint64) uint64 {
	x += 0x9e3779b97f4a7c15
	z := x
	z = (z ^ (z >> 30)) * 0xbf58476d1ce4e5b9
	z = (z ^ (z >> 27)) * 0x94d049bb133111eb
	return z ^ (z >> 31)
}

// NewChoices returns a random-mode stream.
func NewChoices(seed uint64) *Choices {
	c := &Choices{SwitchPermille: 300}
	c.state = splitmix(seed)
	c.inc = splitmix(seed^0xda3e39cb94b95bdb) | 1
	c.next()
	return c
}

// NewReplay returns a replay-mode stream.
func NewReplay(vec []int) *Choices {
	return &Choices{replay: vec, isRep: true, SwitchPermille: 300}
}

func (c *Choices) next() uint32 {
	old := c.state
	c.state = old*6364136223846793005 + c.inc
	xorshifted := uint32(((old >> 18) ^ old) >> 27)
	rot := uint32(old >> 59)
	return (xorshifted >> rot) | (xorshifted << ((-rot) & 31))
}

func (c *Choices) uniform(n int) int {
	if n <= 1 {
		return 0
	}
	return int((uint64(c.next())<<32 | uint64(c.next())) % uint64(n))
}

func (c *Choices) take(n int, kind string, draw func() int) int {
	if n <= 1 {
		return 0
	}
	c.mu.Lock()
	defer c.mu.Unlock()
	var v int
	if c.isRep {
		if c.pos < len(c.replay) {
			v = c.replay[c.pos]
			if v < 0 {
				v = -v
			}
			v %= n
		}
	} else {
		v = draw()
	}
	c.pos++
	if !c.NoRecord {
		c.Rec = append(c.Rec, Choice{kind, n, v})
	}
	return v
}

// Choose draws uniformly from [0,n).
func (c *Choices) Choose(n int, kind string) int {
	return c.take(n, kind, func() int { return c.uniform(n) })
}

// ChooseBiased returns 0 with probability (1000-permille)/1000, otherwise uniform in [0,n).
func (c *Choices) ChooseBiased(n int, permille int, kind string) int {
	return c.take(n, kind, func() int {
		if c.uniform(1000) >= permille {
			return 0
		}
		return c.uniform(n)
	})
}

// Vector returns the recorded values.
func (c *Choices) Vector() []int {
	c.mu.Lock()
	defer c.mu.Unlock()
	out := make([]int, len(c.Rec))
	for i, r := range c.Rec {
		out[i] = r.V
	}
	return out
}

// Len is the number of choices consumed so far.
func (c *Choices) Len() int {
	c.mu.Lock()
	defer c.mu.Unlock()
	return c.pos
}
