package simrt

import (
	"context"
	"fmt"
	"reflect"
	"sort"
	"sync"
	"time"
	"unsafe"
)

// ---------------------------------------------------------------- blocking wrappers

// Block0 wraps a statement that may block durably (WaitGroup.Wait, time.Sleep, ...).
func Block0(f func(), site string) {
	Yield(site)
	f()
	Yield(site)
}

// Block1 wraps a blocking call with one result.
func Block1[T any](f func() T, site string) T {
	Yield(site)
	v := f()
	Yield(site)
	return v
}

// Block2 wraps a blocking call with two results.
func Block2[A, B any](f func() (A, B), site string) (A, B) {
	Yield(site)
	a, b := f()
	Yield(site)
	return a, b
}

// ---------------------------------------------------------------- channels

func Send[T any](ch chan<- T, v T, site string) {
	Yield(site)
	ch <- v
	Yield(site)
}

func Recv[T any](ch <-chan T, site string) T {
	Yield(site)
	v := <-ch
	Yield(site)
	return v
}

func Recv2[T any](ch <-chan T, site string) (T, bool) {
	Yield(site)
	v, ok := <-ch
	Yield(site)
	return v, ok
}

func Close[T any](ch chan<- T, site string) {
	Yield(site)
	close(ch)
}

// ---------------------------------------------------------------- select

// Sel is a sim-controlled select statement.
type Sel struct {
	cases  []reflect.SelectCase
	hasDef bool
	site   string
	recv   reflect.Value
	recvOK bool
}

func NewSelect(site string) *Sel { return &Sel{site: site} }

// SelRecv adds a receive case.
func SelRecv[T any](s *Sel, ch <-chan T) {
	s.cases = append(s.cases, reflect.SelectCase{Dir: reflect.SelectRecv, Chan: reflect.ValueOf(ch)})
}

// SelSend adds a send case.
func SelSend[T any](s *Sel, ch chan<- T, v T) {
	s.cases = append(s.cases, reflect.SelectCase{Dir: reflect.SelectSend, Chan: reflect.ValueOf(ch), Send: reflect.ValueOf(&v).Elem()})
}

// Default marks that the select has a default clause.
func (s *Sel) Default() { s.hasDef = true }

// Wait performs the select and returns the index of the chosen case (-1 = default).
func (s *Sel) Wait() int {
	sc := S
	if sc != nil {
		if t := cur(); t != nil && t.noPark > 0 {
			sc = nil
		}
	}
	if n0 := len(s.cases); n0 > 1 {
		Drowse("select")
	}
	Yield(s.site)
	n := len(s.cases)
	start := 0
	if sc != nil && n > 1 {
		start = sc.C.Choose(n, "select")
	}
	// poll the cases one at a time in the drawn order
	for k := 0; k < n; k++ {
		i := (start + k) % n
		c := s.cases[i]
		if !c.Chan.IsValid() || c.Chan.IsNil() {
			continue // nil channel: never ready
		}
		chosen, rv, ok := reflect.Select([]reflect.SelectCase{c, {Dir: reflect.SelectDefault}})
		if chosen == 0 {
			s.recv, s.recvOK = rv, ok
			if k > 0 {
				Probe("select-later-case-ready")
			}
			return i
		}
	}
	if s.hasDef {
		return -1
	}
	if n == 0 {
		Yield(s.site)
		select {}
	}
	chosen, rv, ok := reflect.Select(s.cases)
	s.recv, s.recvOK = rv, ok
	Yield(s.site)
	return chosen
}

// RecvAs returns the value received by case i, typed by the channel expression.
func RecvAs[T any](s *Sel, i int, _ <-chan T) (T, bool) {
	var zero T
	if !s.recv.IsValid() {
		return zero, s.recvOK
	}
	v, _ := s.recv.Interface().(T)
	return v, s.recvOK
}

// RecvAs1 is RecvAs without the ok result.
func RecvAs1[T any](s *Sel, i int, ch <-chan T) T {
	v, _ := RecvAs(s, i, ch)
	return v
}

// ---------------------------------------------------------------- mutexes

type tryLocker interface {
	TryLock() bool
}

func lockSlow(addr unsafe.Pointer, try func() bool, plain func(), site string) {
	s := S
	t := cur()
	if s == nil || t == nil {
		plain()
		return
	}
	if t.noPark > 0 || t.exitng {
		if try() {
			return
		}
		if t.exitng {
			// a dying task cannot wait for the scheduler: block forever (zombie)
			<-make(chan struct{})
		}
		panic("SIMRT-INFRA: lock contention in no-park section at " + site)
	}
	t.parkAt(site)
	for !try() {
		Probe("lock-contended")
		s.mu.Lock()
		if t.kill || (t.Proc != nil && t.Proc.dead) || s.aborted {
			s.mu.Unlock()
			t.exitng = true
			goexit()
		}
		t.state = stLockWait
		t.lockAt = addr
		t.lockOK = false
		t.site = site
		s.mu.Unlock()
		s.notify()
		<-t.wake
		if t.kill {
			t.exitng = true
			goexit()
		}
	}
}

func unlockWake(addr unsafe.Pointer) {
	s := S
	if s == nil {
		return
	}
	s.mu.Lock()
	for _, t := range s.tasks {
		if t.state == stLockWait && t.lockAt == addr {
			t.lockOK = true
		}
	}
	s.mu.Unlock()
}

func Lock(m *sync.Mutex, site string) {
	lockSlow(unsafe.Pointer(m), m.TryLock, m.Lock, site)
}

func Unlock(m *sync.Mutex, site string) {
	m.Unlock()
	unlockWake(unsafe.Pointer(m))
}

func TryLock(m *sync.Mutex, site string) bool {
	Yield(site)
	return m.TryLock()
}

func RWLock(m *sync.RWMutex, site string) {
	lockSlow(unsafe.Pointer(m), m.TryLock, m.Lock, site)
}

func RWUnlock(m *sync.RWMutex, site string) {
	m.Unlock()
	unlockWake(unsafe.Pointer(m))
}

func RWRLock(m *sync.RWMutex, site string) {
	lockSlow(unsafe.Pointer(m), m.TryRLock, m.RLock, site)
}

func RWRUnlock(m *sync.RWMutex, site string) {
	m.RUnlock()
	unlockWake(unsafe.Pointer(m))
}

// OnceDo runs once.Do(f) without parking inside f (a second caller could otherwise block
// on the Once's internal mutex, which the bubble cannot see).
func OnceDo(o *sync.Once, f func(), site string) {
	Yield(site)
	t := cur()
	if t == nil {
		o.Do(f)
		return
	}
	t.noPark++
	defer func() { t.noPark-- }()
	o.Do(f)
}

// ---------------------------------------------------------------- pond pool tasks

// WrapErr turns a function submitted to a third-party pool into a task: the token is
// created by the submitting task, the pool goroutine adopts it on entry and parks.
func WrapErr(f func() error, site string) func() error {
	s := S
	parent := cur()
	if s == nil || parent == nil {
		return f
	}
	t := s.newTask(parent, nil)
	t.state = stRunning
	return func() (err error) {
		s.byGoid.Store(goid(), t)
		defer s.finish(t)
		t.parkAt("start:" + site)
		return f()
	}
}

// Wrap is WrapErr for functions without result.
func Wrap(f func(), site string) func() {
	w := WrapErr(func() error { f(); return nil }, site)
	return func() { _ = w() }
}

// ---------------------------------------------------------------- maps

type mapInfo struct {
	owner  *Task
	shared bool
	writer *Task
	wsite  string
}

// touchLocked records that t accessed the map at p and returns its tracking record.
func (s *Sched) touchLocked(p unsafe.Pointer, t *Task) *mapInfo {
	mi := s.maps[p]
	if mi == nil {
		mi = &mapInfo{owner: t}
		s.maps[p] = mi
	} else if mi.owner != t {
		mi.shared = true
	}
	return mi
}

// MapR notes a read of a map and returns it. Reading while another task is inside a write
// window of the same map is the interleaving on which the Go runtime throws
// "concurrent map read and map write".
func MapR[M ~map[K]V, K comparable, V any](m M, site string) M {
	s := S
	if s == nil || m == nil {
		return m
	}
	t := cur()
	p := reflect.ValueOf(m).UnsafePointer()
	s.mu.Lock()
	mi := s.touchLocked(p, t)
	if mi.writer != nil && mi.writer != t {
		s.addLocked(Violation{
			Prop:      "C04",
			Class:     "concurrent-map",
			Signature: "read " + site + " / write " + mi.wsite,
			Detail:    fmt.Sprintf("task %s reads map at %s while task %s is writing it at %s (the Go runtime throws \"concurrent map read and map write\" on this interleaving)", tid(t), site, tid(mi.writer), mi.wsite),
		})
		s.aborted = true
	}
	s.mu.Unlock()
	return m
}

func tid(t *Task) string {
	if t == nil {
		return "?"
	}
	return t.ID
}

// MapW notes a write. If more than one task has touched the map it opens a write window,
// yields inside it, closes it and returns the map.
func MapW[M ~map[K]V, K comparable, V any](m M, site string) M {
	return mapWrite(m, site, true)
}

// MapWL is MapW for maps held in plain local variables: the window is only opened once a
// second task has been seen touching the map.
func MapWL[M ~map[K]V, K comparable, V any](m M, site string) M {
	return mapWrite(m, site, false)
}

func mapWrite[M ~map[K]V, K comparable, V any](m M, site string, eager bool) M {
	s := S
	if s == nil || m == nil {
		return m
	}
	t := cur()
	p := reflect.ValueOf(m).UnsafePointer()
	s.mu.Lock()
	mi := s.touchLocked(p, t)
	if mi.writer != nil && mi.writer != t {
		s.addLocked(Violation{
			Prop:      "C04",
			Class:     "concurrent-map",
			Signature: "write " + site + " / write " + mi.wsite,
			Detail:    fmt.Sprintf("task %s writes map at %s while task %s is writing it at %s (\"concurrent map writes\")", tid(t), site, tid(mi.writer), mi.wsite),
		})
		s.aborted = true
		s.mu.Unlock()
		return m
	}
	if t == nil || t.noPark > 0 || t.exitng || (!mi.shared && !(eager && s.liveLocked(t.Proc) > 1)) {
		s.mu.Unlock()
		return m
	}
	mi.writer, mi.wsite = t, site
	s.mu.Unlock()
	defer func() {
		s.mu.Lock()
		if mi.writer == t {
			mi.writer = nil
		}
		s.mu.Unlock()
	}()
	Yield(site)
	return m
}

// MapKeys returns the keys of m in a canonical order permuted by the choice stream.
func MapKeys[M ~map[K]V, K comparable, V any](m M, site string) []K {
	keys := make([]K, 0, len(m))
	for k := range m {
		keys = append(keys, k)
	}
	if len(keys) < 2 {
		return keys
	}
	strs := make([]string, len(keys))
	for i, k := range keys {
		strs[i] = fmt.Sprint(k)
	}
	idx := make([]int, len(keys))
	for i := range idx {
		idx[i] = i
	}
	sort.SliceStable(idx, func(a, b int) bool { return strs[idx[a]] < strs[idx[b]] })
	out := make([]K, len(keys))
	for i, j := range idx {
		out[i] = keys[j]
	}
	s := S
	if s == nil {
		return out
	}
	switch s.C.ChooseBiased(3, 500, "maporder") {
	case 1:
		for i, j := 0, len(out)-1; i < j; i, j = i+1, j-1 {
			out[i], out[j] = out[j], out[i]
		}
	case 2:
		x := uint64(s.C.Choose(1<<20, "mapseed")) + 1
		for i := len(out) - 1; i > 0; i-- {
			x = splitmix(x)
			j := int(x % uint64(i+1))
			out[i], out[j] = out[j], out[i]
		}
	}
	return out
}

// Pre / Post bracket a blocking call with arguments and one result:
// simrt.Post(simrt.Pre(site), call(...)) — arguments are evaluated left to right.
func Pre(site string) string { Yield(site); return site }

func Post[T any](site string, v T) T { Yield(site); return v }

// ---------------------------------------------------------------- callbacks run by the standard library

// AfterFuncCtx replaces context.AfterFunc: the callback runs in a controlled task once ctx is
// done (the standard library would run it in a goroutine of its own, outside the scheduler).
func AfterFuncCtx(ctx context.Context, f func(), site string) (stop func() bool) {
	if S == nil {
		return context.AfterFunc(ctx, f)
	}
	stopCh := make(chan struct{})
	var mu sync.Mutex
	state := 0 // 0 pending, 1 started, 2 stopped
	Go(site, func() {
		sl := NewSelect(site)
		SelRecv(sl, ctx.Done())
		SelRecv(sl, (<-chan struct{})(stopCh))
		if sl.Wait() != 0 {
			return
		}
		mu.Lock()
		if state != 0 {
			mu.Unlock()
			return
		}
		state = 1
		mu.Unlock()
		f()
	})
	return func() bool {
		mu.Lock()
		defer mu.Unlock()
		if state != 0 {
			return false
		}
		state = 2
		close(stopCh)
		return true
	}
}

// AfterFuncTimer replaces time.AfterFunc for the same reason; the returned value offers Stop.
type SimTimer struct{ stop func() bool }

func (t *SimTimer) Stop() bool { return t.stop() }

func AfterFuncTimer(d time.Duration, f func(), site string) *SimTimer {
	ctx, cancel := context.WithCancel(context.Background())
	fired := false
	var mu sync.Mutex
	Go(site, func() {
		sl := NewSelect(site)
		SelRecv(sl, time.After(d))
		SelRecv(sl, ctx.Done())
		if sl.Wait() != 0 {
			return
		}
		mu.Lock()
		fired = true
		mu.Unlock()
		f()
	})
	return &SimTimer{stop: func() bool {
		mu.Lock()
		defer mu.Unlock()
		if fired || ctx.Err() != nil {
			return false
		}
		cancel()
		return true
	}}
}
