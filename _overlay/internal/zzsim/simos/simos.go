// Package simos interposes on the operating-system calls of grog: every call is a sim point,
// may be failed by the run's fault plan, is suppressed for dead simulated processes and
// otherwise passes through to the real file system (a private tmpfs directory per run).
package simos

import (
	"errors"
	"fmt"
	"io"
	"io/fs"
	"net/url"
	"os"
	"path/filepath"
	"runtime"
	"sort"
	"strings"
	"sync"
	"syscall"
	"time"

	"github.com/boyter/gocodewalker"
	"go.uber.org/zap"
	"go.uber.org/zap/zapcore"

	"grog/internal/zzsim/simrt"
)

// ErrDead is returned by every call made on behalf of a dead simulated process.
var ErrDead = errors.New("simos: process is dead")

// NumCPU replaces runtime.NumCPU: a per-process drawn value, so that pools sized from the CPU
// count (output pool = 2*NumCPU, default worker count) are small enough for exhaustion,
// queueing and leak scenarios to be reachable.
func NumCPU() int {
	p := simrt.CurProc()
	s := simrt.S
	if p == nil || s == nil {
		return runtime.NumCPU()
	}
	pd := PD(p)
	if pd.NCPU == 0 {
		pd.NCPU = []int{4, 1, 2, 16, 1}[s.C.Choose(5, "numcpu")]
	}
	return pd.NCPU
}

// ProcData is the per-process environment.
type ProcData struct {
	NCPU     int
	Cwd      string
	Environ  []string
	sigChans []chan<- os.Signal
	UICancel func()
	Ops      int
	// CrashAtOp > 0: kill the process when its Ops counter reaches this value.
	CrashAtOp int
	open      map[*os.File]bool // descriptors the process holds (closed when it dies)
}

var pdMu sync.Mutex

// PD returns (creating if needed) the environment of p.
func PD(p *simrt.Proc) *ProcData {
	pdMu.Lock()
	defer pdMu.Unlock()
	if p.Data == nil {
		p.Data = &ProcData{}
	}
	return p.Data.(*ProcData)
}

// FaultPlan is the fault configuration of a run (nil = fault-free).
type FaultPlan struct {
	Budget   int
	PerMille int
	Kinds    map[string]bool
	// Filter restricts injection to some paths/ops (nil = all).
	Filter func(op, path string) bool
	// Rate, if set, overrides PerMille per operation (faults are biased towards operations
	// that create in-flight state, e.g. opening a blob during a restore).
	Rate func(op, path, kind string) int
	// Touched is called for every injected fault (op, path, kind).
	Touched func(op, path, kind string)
	// SlowCopy: a slow disk - every copy into a file below SlowUnder takes that long on the
	// fake clock (between the moment the destination exists and the moment its bytes do), so
	// that a process can end while a copy is in flight.
	SlowCopy  time.Duration
	SlowUnder string
}

// Plan is the installed fault plan.
var Plan *FaultPlan

// Trace, if set, receives every file-system operation (for audits / op counting).
var Trace func(p *simrt.Proc, op, path string)

// TraceSite is the source site of the operation Trace is being called for.
var TraceSite string

// hooks registered by the harness (fake S3 client, ...)
var hooks sync.Map

func SetHook(name string, v any) { hooks.Store(name, v) }
func Hook(name string) any {
	v, _ := hooks.Load(name)
	return v
}

// Reset clears run-scoped state.
func Reset() {
	Plan = nil
	Trace = nil
	hooks = sync.Map{}
	extraLive = map[int]bool{}
}

var extraLive = map[int]bool{}

// SetForeignLive marks a pid (not a simulated grog process) as alive / dead.
func SetForeignLive(pid int, alive bool) { extraLive[pid] = alive }

// pre is the common prologue: sim point, dead-process suppression, crash point, fault decision.
// It returns a non-nil error if the operation must not be performed.
// SIM_FSLOG=1: debugging aid, prints every interposed file-system operation (never draws a choice)
var fsLog = os.Getenv("SIM_FSLOG") != ""

func pre(op, path, kind string, site string) error {
	simrt.Yield(site)
	s := simrt.S
	if s == nil {
		return nil
	}
	p := simrt.CurProc()
	if p == nil {
		return nil
	}
	if p.Dead() {
		return &os.PathError{Op: op, Path: path, Err: ErrDead}
	}
	pd := PD(p)
	pd.Ops++
	if fsLog {
		fmt.Fprintf(os.Stderr, "FSLOG %s #%d %s %s @%s\n", p.Name, pd.Ops, op, path, site)
	}
	if Trace != nil {
		TraceSite = site
		Trace(p, op, path)
	}
	if pd.CrashAtOp > 0 && pd.Ops == pd.CrashAtOp {
		simrt.Fault("crash")
		s.Crash(p) // does not return for the calling task
		return &os.PathError{Op: op, Path: path, Err: ErrDead}
	}
	if kind != "" && injectNow(op, path, kind) {
		errno := syscall.EIO
		switch kind {
		case "fs-error-write":
			errno = syscall.ENOSPC
		}
		return &os.PathError{Op: op, Path: path, Err: errno}
	}
	return nil
}

func injectNow(op, path, kind string) bool {
	pl := Plan
	s := simrt.S
	if pl == nil || s == nil || pl.Budget <= 0 || !pl.Kinds[kind] {
		return false
	}
	if pl.Filter != nil && !pl.Filter(op, path) {
		return false
	}
	rate := pl.PerMille
	if pl.Rate != nil {
		rate = pl.Rate(op, path, kind)
	}
	if s.C.ChooseBiased(2, rate, "fault:"+kind) == 0 {
		return false
	}
	pl.Budget--
	if fsLog {
		fmt.Fprintf(os.Stderr, "FSLOG   ^^ injected %s\n", kind)
	}
	simrt.Fault(kind)
	if pl.Touched != nil {
		pl.Touched(op, path, kind)
	}
	return true
}

func dead() bool {
	p := simrt.CurProc()
	return p != nil && p.Dead()
}

// deadOK turns the "process is dead" error of an effect-only operation into success: the
// operation is not performed, and clean-up code running while the task unwinds stays quiet.
func deadOK(err error) error {
	var pe *os.PathError
	if errors.As(err, &pe) && pe.Err == ErrDead {
		return nil
	}
	return err
}

// ---------------------------------------------------------------- os functions

func Open(name string, site string) (*os.File, error) {
	if err := pre("open", name, "fs-error-read", site); err != nil {
		return nil, err
	}
	return track(os.Open(name))
}

func OpenFile(name string, flag int, perm os.FileMode, site string) (*os.File, error) {
	kind := "fs-error-read"
	if flag&(os.O_WRONLY|os.O_RDWR|os.O_CREATE) != 0 {
		kind = "fs-error-write"
	}
	if err := pre("open", name, kind, site); err != nil {
		return nil, err
	}
	return track(os.OpenFile(name, flag, perm))
}

func Create(name string, site string) (*os.File, error) {
	if err := pre("create", name, "fs-error-write", site); err != nil {
		return nil, err
	}
	return track(os.Create(name))
}

func CreateTemp(dir, pattern string, site string) (*os.File, error) {
	if err := pre("createtemp", filepath.Join(dir, pattern), "fs-error-write", site); err != nil {
		return nil, err
	}
	// deterministic temp names: os.CreateTemp draws from a process-global random source
	s := simrt.S
	if s == nil {
		return os.CreateTemp(dir, pattern)
	}
	prefix, suffix := pattern, ""
	if i := strings.LastIndex(pattern, "*"); i >= 0 {
		prefix, suffix = pattern[:i], pattern[i+1:]
	}
	for n := tempCounter(); ; n = tempCounter() {
		name := filepath.Join(dir, prefix+itoa(n)+suffix)
		f, err := os.OpenFile(name, os.O_RDWR|os.O_CREATE|os.O_EXCL, 0600)
		if os.IsExist(err) {
			continue
		}
		return track(f, err)
	}
}

// track / untrack: the descriptors a simulated process holds. A dead process's descriptors are
// closed (as the OS would): the tasks of a killed process never run again, so without this a
// long-lived worker process runs out of descriptors.
func track(f *os.File, err error) (*os.File, error) {
	if err != nil || f == nil || simrt.S == nil {
		return f, err
	}
	if p := simrt.CurProc(); p != nil {
		pd := PD(p)
		pdMu.Lock()
		if pd.open == nil {
			pd.open = map[*os.File]bool{}
		}
		pd.open[f] = true
		pdMu.Unlock()
	}
	return f, err
}

func untrack(f *os.File) {
	if simrt.S == nil {
		return
	}
	if p := simrt.CurProc(); p != nil {
		pd := PD(p)
		pdMu.Lock()
		delete(pd.open, f)
		pdMu.Unlock()
	}
}

func init() {
	simrt.OnProcDead = func(p *simrt.Proc) {
		pd, ok := p.Data.(*ProcData)
		if !ok || pd == nil {
			return
		}
		pdMu.Lock()
		files := pd.open
		pd.open = nil
		pdMu.Unlock()
		for f := range files {
			f.Close()
		}
	}
}

var tempMu sync.Mutex
var tempN int

func tempCounter() int {
	tempMu.Lock()
	defer tempMu.Unlock()
	tempN++
	return tempN
}

// ResetTemp restarts temp-file numbering (per run).
func ResetTemp() { tempMu.Lock(); tempN = 0; tempMu.Unlock() }

func itoa(n int) string {
	if n == 0 {
		return "0"
	}
	var b [20]byte
	i := len(b)
	for n > 0 {
		i--
		b[i] = byte('0' + n%10)
		n /= 10
	}
	return string(b[i:])
}

func MkdirAll(path string, perm os.FileMode, site string) error {
	if err := pre("mkdir", path, "fs-error-write", site); err != nil {
		return deadOK(err)
	}
	return os.MkdirAll(path, perm)
}

func Mkdir(path string, perm os.FileMode, site string) error {
	if err := pre("mkdir", path, "fs-error-write", site); err != nil {
		return deadOK(err)
	}
	return os.Mkdir(path, perm)
}

func MkdirTemp(dir, pattern string, site string) (string, error) {
	if err := pre("mkdirtemp", filepath.Join(dir, pattern), "fs-error-write", site); err != nil {
		return "", err
	}
	if simrt.S == nil {
		return os.MkdirTemp(dir, pattern)
	}
	if dir == "" {
		dir = os.TempDir()
	}
	for n := tempCounter(); ; n = tempCounter() {
		name := filepath.Join(dir, strings.Replace(pattern, "*", itoa(n), 1)+"-sim"+itoa(n))
		err := os.Mkdir(name, 0700)
		if os.IsExist(err) {
			continue
		}
		return name, err
	}
}

func Remove(name string, site string) error {
	if err := pre("remove", name, "fs-error-write", site); err != nil {
		return deadOK(err)
	}
	return os.Remove(name)
}

func RemoveAll(path string, site string) error {
	if err := pre("removeall", path, "fs-error-write", site); err != nil {
		return deadOK(err)
	}
	return os.RemoveAll(path)
}

func Rename(oldpath, newpath string, site string) error {
	if err := pre("rename", newpath, "fs-error-write", site); err != nil {
		return deadOK(err)
	}
	return os.Rename(oldpath, newpath)
}

func Stat(name string, site string) (os.FileInfo, error) {
	if err := pre("stat", name, "fs-error-stat", site); err != nil {
		return nil, err
	}
	return os.Stat(name)
}

func Lstat(name string, site string) (os.FileInfo, error) {
	if err := pre("lstat", name, "fs-error-stat", site); err != nil {
		return nil, err
	}
	return os.Lstat(name)
}

func ReadDir(name string, site string) ([]os.DirEntry, error) {
	if err := pre("readdir", name, "fs-error-read", site); err != nil {
		return nil, err
	}
	return os.ReadDir(name)
}

func ReadFile(name string, site string) ([]byte, error) {
	if err := pre("readfile", name, "fs-error-read", site); err != nil {
		return nil, err
	}
	return os.ReadFile(name)
}

func WriteFile(name string, data []byte, perm os.FileMode, site string) error {
	if err := pre("writefile", name, "fs-error-write", site); err != nil {
		return deadOK(err)
	}
	return os.WriteFile(name, data, perm)
}

func Readlink(name string, site string) (string, error) {
	if err := pre("readlink", name, "fs-error-read", site); err != nil {
		return "", err
	}
	return os.Readlink(name)
}

func Symlink(oldname, newname string, site string) error {
	if err := pre("symlink", newname, "fs-error-write", site); err != nil {
		return deadOK(err)
	}
	return os.Symlink(oldname, newname)
}

func Link(oldname, newname string, site string) error {
	if err := pre("link", newname, "fs-error-write", site); err != nil {
		return deadOK(err)
	}
	return os.Link(oldname, newname)
}

func Chmod(name string, mode os.FileMode, site string) error {
	if err := pre("chmod", name, "fs-error-write", site); err != nil {
		return deadOK(err)
	}
	return os.Chmod(name, mode)
}

func Truncate(name string, size int64, site string) error {
	if err := pre("truncate", name, "fs-error-write", site); err != nil {
		return deadOK(err)
	}
	return os.Truncate(name, size)
}

func Chtimes(name string, atime, mtime time.Time, site string) error {
	if err := pre("chtimes", name, "fs-error-write", site); err != nil {
		return deadOK(err)
	}
	return os.Chtimes(name, atime, mtime)
}

func Chown(name string, uid, gid int, site string) error {
	if err := pre("chown", name, "fs-error-write", site); err != nil {
		return deadOK(err)
	}
	return os.Chown(name, uid, gid)
}

func Lchown(name string, uid, gid int, site string) error {
	if err := pre("chown", name, "fs-error-write", site); err != nil {
		return deadOK(err)
	}
	return os.Lchown(name, uid, gid)
}

func Getwd(site string) (string, error) {
	if p := simrt.CurProc(); p != nil {
		if pd := PD(p); pd.Cwd != "" {
			return pd.Cwd, nil
		}
	}
	return os.Getwd()
}

func Chdir(dir string, site string) error {
	if p := simrt.CurProc(); p != nil {
		PD(p).Cwd = dir
		return nil
	}
	return os.Chdir(dir)
}

func Environ(site string) []string {
	if p := simrt.CurProc(); p != nil {
		if pd := PD(p); pd.Environ != nil {
			return append([]string(nil), pd.Environ...)
		}
	}
	return []string{"PATH=/usr/bin:/bin", "HOME=/nonexistent"}
}

func Getpid(site string) int {
	if p := simrt.CurProc(); p != nil {
		return p.Pid
	}
	return os.Getpid()
}

func Exit(code int, site string) {
	if simrt.S == nil || simrt.CurProc() == nil {
		os.Exit(code)
	}
	simrt.Yield(site)
	simrt.Exit(code)
}

// Process mirrors *os.Process for liveness probes.
type Process struct {
	Pid  int
	real *os.Process
}

func FindProcess(pid int, site string) (*Process, error) {
	if simrt.S == nil {
		rp, err := os.FindProcess(pid)
		if err != nil {
			return nil, err
		}
		return &Process{Pid: pid, real: rp}, nil
	}
	simrt.Yield(site)
	return &Process{Pid: pid}, nil
}

// Signal supports the signal-0 liveness probe against the simulated process table.
func (p *Process) Signal(sig os.Signal) error {
	if p.real != nil {
		return p.real.Signal(sig)
	}
	simrt.Yield("simos:signal")
	s := simrt.S
	if s == nil {
		return os.ErrProcessDone
	}
	alive := false
	if a, ok := extraLive[p.Pid]; ok {
		alive = a
	} else if q := s.ProcByPid(p.Pid); q != nil && !q.Dead() {
		alive = true
	}
	if ProbeHook != nil {
		ProbeHook(simrt.CurProc(), p.Pid, alive)
	}
	if alive {
		return nil
	}
	return os.ErrProcessDone
}

// ProbeHook, if set, sees every liveness probe (signal 0) and its answer.
var ProbeHook func(by *simrt.Proc, pid int, alive bool)

// ---------------------------------------------------------------- *os.File methods

func FileWrite(f *os.File, b []byte, site string) (int, error) {
	name := fname(f)
	if err := pre("write", name, "short-write", site); err != nil {
		var pe *os.PathError
		if errors.As(err, &pe) && pe.Err != ErrDead && len(b) > 1 {
			n, _ := f.Write(b[:len(b)/2])
			pe.Err = syscall.ENOSPC
			return n, err
		}
		return 0, err
	}
	return f.Write(b)
}

func FileWriteString(f *os.File, s string, site string) (int, error) {
	return FileWrite(f, []byte(s), site)
}

func FileRead(f *os.File, b []byte, site string) (int, error) {
	if err := pre("read", fname(f), "read-error", site); err != nil {
		return 0, err
	}
	return f.Read(b)
}

func FileClose(f *os.File, site string) error {
	if f == nil {
		return os.ErrInvalid
	}
	untrack(f)
	if dead() || simrt.S == nil {
		return f.Close()
	}
	simrt.Yield(site)
	return f.Close()
}

func FileStat(f *os.File, site string) (os.FileInfo, error) {
	if err := pre("fstat", fname(f), "fs-error-stat", site); err != nil {
		return nil, err
	}
	return f.Stat()
}

func FileChmod(f *os.File, mode os.FileMode, site string) error {
	if err := pre("fchmod", fname(f), "fs-error-write", site); err != nil {
		return err
	}
	return f.Chmod(mode)
}

func FileTruncate(f *os.File, size int64, site string) error {
	if err := pre("ftruncate", fname(f), "fs-error-write", site); err != nil {
		return err
	}
	return f.Truncate(size)
}

func FileSync(f *os.File, site string) error {
	if err := pre("fsync", fname(f), "fs-error-write", site); err != nil {
		return err
	}
	return f.Sync()
}

func fname(f *os.File) string {
	if f == nil {
		return "<nil>"
	}
	return f.Name()
}

// ---------------------------------------------------------------- io helpers

// Copy is io.Copy with a sim point before and after, a crash point inside and short-write /
// read-error injection: on an injected fault half of the available data is transferred first.
func Copy(dst io.Writer, src io.Reader, site string) (int64, error) {
	name := "<stream>"
	if f, ok := dst.(*os.File); ok {
		name = f.Name()
	} else if f, ok := src.(*os.File); ok {
		name = f.Name()
	}
	kind := "read-error"
	if _, ok := dst.(*os.File); ok {
		kind = "short-write"
	}
	simrt.Yield(site)
	s := simrt.S
	p := simrt.CurProc()
	if s != nil && p != nil {
		if p.Dead() {
			return 0, &os.PathError{Op: "copy", Path: name, Err: ErrDead}
		}
		pd := PD(p)
		pd.Ops++
		if Trace != nil {
			Trace(p, "copy", name)
		}
		crash := pd.CrashAtOp > 0 && pd.Ops == pd.CrashAtOp
		fault := !crash && injectNow("copy", name, kind)
		if crash || fault {
			// transfer a strict prefix, then die / fail
			data, _ := io.ReadAll(src)
			if len(data) > 0 {
				dst.Write(data[:len(data)/2])
			}
			if crash {
				simrt.Fault("crash")
				simrt.Probe("crash-inside-copy")
				s.Crash(p)
			}
			errno := syscall.EIO
			if kind == "short-write" {
				errno = syscall.ENOSPC
			}
			return int64(len(data) / 2), &os.PathError{Op: "copy", Path: name, Err: errno}
		}
	}
	if pl := Plan; pl != nil && pl.SlowCopy > 0 && s != nil && strings.HasPrefix(name, pl.SlowUnder) {
		if _, ok := dst.(*os.File); ok {
			simrt.Fault("slow-io")
			d := pl.SlowCopy
			simrt.Block0(func() { time.Sleep(d) }, site)
			if p != nil && p.Dead() {
				return 0, &os.PathError{Op: "copy", Path: name, Err: ErrDead}
			}
		}
	}
	n, err := io.Copy(dst, src)
	simrt.Yield(site)
	return n, err
}

// ReadAll is io.ReadAll with sim points and read-error injection.
func ReadAll(r io.Reader, site string) ([]byte, error) {
	name := "<stream>"
	if f, ok := r.(*os.File); ok {
		name = f.Name()
	}
	if err := pre("readall", name, "read-error", site); err != nil {
		return nil, err
	}
	b, err := io.ReadAll(r)
	simrt.Yield(site)
	return b, err
}

// Walk is filepath.Walk with a sim point per call.
func Walk(root string, fn filepath.WalkFunc, site string) error {
	if err := pre("walk", root, "fs-error-read", site); err != nil {
		return err
	}
	return filepath.Walk(root, fn)
}

// WalkDir is filepath.WalkDir behind one sim point.
func WalkDir(root string, fn fs.WalkDirFunc, site string) error {
	if err := pre("walk", root, "fs-error-read", site); err != nil {
		return err
	}
	return filepath.WalkDir(root, fn)
}

// CopyN / CopyBuffer: the same fault and crash semantics as Copy.
func CopyN(dst io.Writer, src io.Reader, n int64, site string) (int64, error) {
	written, err := Copy(dst, io.LimitReader(src, n), site)
	if written == n {
		return n, nil
	}
	if written < n && err == nil {
		err = io.EOF
	}
	return written, err
}

func CopyBuffer(dst io.Writer, src io.Reader, buf []byte, site string) (int64, error) {
	return Copy(dst, src, site)
}

// ---------------------------------------------------------------- signals

// SignalNotify registers c to receive simulated signals for the calling process.
func SignalNotify(c chan<- os.Signal, sig ...os.Signal) {
	p := simrt.CurProc()
	if p == nil {
		return
	}
	pd := PD(p)
	pdMu.Lock()
	pd.sigChans = append(pd.sigChans, c)
	pdMu.Unlock()
}

// Deliver sends sig to every channel registered by process p (non-blocking like os/signal).
// Returns false when the process has no handler installed (default action: die).
func Deliver(p *simrt.Proc, sig os.Signal) bool {
	pd := PD(p)
	pdMu.Lock()
	chans := append([]chan<- os.Signal(nil), pd.sigChans...)
	pdMu.Unlock()
	for _, c := range chans {
		select {
		case c <- sig:
		default:
		}
	}
	return len(chans) > 0
}

// RegisterUICancel stores the cancel function of the task UI (ctrl-c inside the TUI).
func RegisterUICancel(cancel func()) {
	if p := simrt.CurProc(); p != nil {
		PD(p).UICancel = cancel
	}
}

// ---------------------------------------------------------------- zap

type fatalHook struct{}

func (fatalHook) OnWrite(e *zapcore.CheckedEntry, _ []zapcore.Field) {
	if simrt.S == nil || simrt.CurProc() == nil {
		os.Exit(1)
	}
	simrt.Exit(1)
}

// ZapBuild replaces cfg.Build(opts...): file sinks are opened through a registered sink so that
// the descriptor belongs to the simulated process (zap opens its sinks itself, grog never closes
// them, the operating system does when the process ends - here: OnProcDead).
func ZapBuild(cfg zap.Config, opts ...zap.Option) (*zap.Logger, error) {
	if simrt.S != nil {
		zapSinkOnce.Do(func() {
			zap.RegisterSink("simfile", func(u *url.URL) (zap.Sink, error) {
				return track(os.OpenFile(u.Path, os.O_WRONLY|os.O_APPEND|os.O_CREATE, 0o666))
			})
		})
		route := func(paths []string) []string {
			out := make([]string, len(paths))
			for i, p := range paths {
				out[i] = p
				if p != "stdout" && p != "stderr" && !strings.Contains(p, "://") {
					if abs, err := filepath.Abs(p); err == nil {
						out[i] = "simfile://" + abs
					}
				}
			}
			return out
		}
		cfg.OutputPaths = route(cfg.OutputPaths)
		cfg.ErrorOutputPaths = route(cfg.ErrorOutputPaths)
	}
	return cfg.Build(append(opts, ZapOptions()...)...)
}

var zapSinkOnce sync.Once

// ZapOptions makes logger.Fatal terminate the simulated process instead of the worker.
func ZapOptions() []zap.Option { return []zap.Option{zap.WithFatalHook(fatalHook{})} }

// ---------------------------------------------------------------- deterministic file walker

// File mirrors the fields of gocodewalker.File that grog uses.
type File struct {
	Location string
	Filename string
}

// ListFiles returns every regular file below the roots in lexical order.
func ListFiles(roots []string) []File {
	var out []File
	for _, root := range roots {
		filepath.WalkDir(root, func(path string, d fs.DirEntry, err error) error {
			if err != nil {
				return nil
			}
			if d.IsDir() {
				if strings.HasPrefix(d.Name(), ".") && path != root {
					return filepath.SkipDir
				}
				return nil
			}
			out = append(out, File{Location: path, Filename: d.Name()})
			return nil
		})
	}
	sort.Slice(out, func(i, j int) bool { return out[i].Location < out[j].Location })
	return out
}

// FileWalker is the deterministic stand-in for gocodewalker's parallel walker: it lists the
// files below the roots in lexical order, sends them on the queue and closes it.
type FileWalker struct {
	roots []string
	queue chan *gocodewalker.File
}

func NewFileWalker(roots []string, queue chan *gocodewalker.File) *FileWalker {
	return &FileWalker{roots: roots, queue: queue}
}

func (w *FileWalker) Start() error {
	for _, f := range ListFiles(w.roots) {
		simrt.Send((chan<- *gocodewalker.File)(w.queue), &gocodewalker.File{Location: f.Location, Filename: f.Filename}, "simos:filewalker")
	}
	simrt.Close((chan<- *gocodewalker.File)(w.queue), "simos:filewalker")
	return nil
}
