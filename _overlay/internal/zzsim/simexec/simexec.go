// Package simexec replaces os/exec in the rewritten grog sources. It keeps os/exec's
// context semantics (no start under a cancelled context, kill on cancellation, WaitDelay)
// and delegates what a command does to a handler installed by the harness.
package simexec

import (
	"context"
	"errors"
	"fmt"
	"io"
	"os"
	realexec "os/exec"
	"syscall"
	"time"

	"grog/internal/zzsim/simrt"
)

// ErrNotFound mirrors exec.ErrNotFound.
var ErrNotFound = errors.New("executable file not found in $PATH")

// ExitError mirrors *exec.ExitError.
type ExitError struct {
	Code   int
	Killed bool
	Stderr []byte
}

func (e *ExitError) Error() string {
	if e.Killed {
		return "signal: killed"
	}
	return fmt.Sprintf("exit status %d", e.Code)
}

// ExitCode mirrors (*exec.ExitError).ExitCode (-1 when killed by a signal).
func (e *ExitError) ExitCode() int {
	if e.Killed {
		return -1
	}
	return e.Code
}

// Cmd mirrors the fields of exec.Cmd that grog uses.
type Cmd struct {
	Path      string
	Args      []string
	Env       []string
	Dir       string
	Stdin     io.Reader
	Stdout    io.Writer
	Stderr    io.Writer
	WaitDelay time.Duration
	Cancel    func() error
	// Process mirrors exec.Cmd.Process (set by Start): Kill and Signal only.
	Process *Process

	ctx     context.Context
	started bool
	done    chan error
	real    *realexec.Cmd
}

// Process mirrors the part of os.Process that callers of exec.Cmd use.
type Process struct {
	Pid  int
	kill func()
	term func()
	real *os.Process
}

// Kill mirrors (*os.Process).Kill: the command dies at once.
func (p *Process) Kill() error {
	if p.real != nil {
		return p.real.Kill()
	}
	p.kill()
	return nil
}

// Signal mirrors (*os.Process).Signal: SIGKILL kills; SIGTERM / SIGINT / SIGHUP terminate the
// command unless it traps them (Invocation.TrapTerm); other signals are ignored.
func (p *Process) Signal(sig os.Signal) error {
	if p.real != nil {
		return p.real.Signal(sig)
	}
	switch sig {
	case os.Kill:
		p.kill()
	case os.Interrupt, syscall.SIGTERM, syscall.SIGHUP, syscall.SIGQUIT:
		p.term()
	}
	return nil
}

// Invocation is what the handler sees.
type Invocation struct {
	Cmd *Cmd
	Ctx context.Context // cancelled when the command is killed
	// TrapTerm: set by the handler for a command that traps SIGTERM/SIGINT and carries on
	// (only SIGKILL stops it); Termed reports that such a signal was received.
	TrapTerm bool
	Termed   bool
	// StartStep is the scheduler step at which the command was started (fork time).
	StartStep int
	// StartSim is the simulated time since the run began at which the command was started.
	StartSim time.Duration
	// Sleep waits d on the fake clock; it returns false if the command was killed meanwhile.
	Sleep func(d time.Duration) bool
}

// Handler interprets a command. It returns the exit code (0 = success) or an error for
// commands that cannot be started at all (unknown executable, permission denied).
type Handler func(inv *Invocation) (exitCode int, startErr error)

// H is the installed handler.
var H Handler

func Command(name string, arg ...string) *Cmd {
	return &Cmd{Path: name, Args: append([]string{name}, arg...)}
}

func CommandContext(ctx context.Context, name string, arg ...string) *Cmd {
	c := Command(name, arg...)
	c.ctx = ctx
	return c
}

func LookPath(file string) (string, error) { return "", ErrNotFound }

func (c *Cmd) String() string { return fmt.Sprint(c.Args) }

// Environ mirrors (*exec.Cmd).Environ.
func (c *Cmd) Environ() []string { return c.Env }

func (c *Cmd) Run() error {
	if err := c.Start(); err != nil {
		return err
	}
	return c.Wait()
}

func (c *Cmd) Output() ([]byte, error) {
	var buf writerBuf
	c.Stdout = &buf
	err := c.Run()
	return buf.b, err
}

func (c *Cmd) CombinedOutput() ([]byte, error) {
	var buf writerBuf
	c.Stdout = &buf
	c.Stderr = &buf
	err := c.Run()
	return buf.b, err
}

type writerBuf struct{ b []byte }

func (w *writerBuf) Write(p []byte) (int, error) { w.b = append(w.b, p...); return len(p), nil }

// Start launches the command as a separate task (the child process).
func (c *Cmd) Start() error {
	if simrt.S == nil {
		// pass-through mode (the repository's unit tests on the rewritten copy)
		if c.ctx != nil {
			c.real = realexec.CommandContext(c.ctx, c.Path, c.Args[1:]...)
		} else {
			c.real = realexec.Command(c.Path, c.Args[1:]...)
		}
		c.real.Env, c.real.Dir, c.real.Stdin, c.real.Stdout, c.real.Stderr, c.real.WaitDelay = c.Env, c.Dir, c.Stdin, c.Stdout, c.Stderr, c.WaitDelay
		if c.Cancel != nil {
			c.real.Cancel = c.Cancel
		}
		c.started = true
		err := c.real.Start()
		if c.real.Process != nil {
			c.Process = &Process{Pid: c.real.Process.Pid, real: c.real.Process}
		}
		return err
	}
	simrt.Yield("simexec:start")
	if c.started {
		return errors.New("exec: already started")
	}
	if p := simrt.CurProc(); p != nil && p.Dead() {
		return errors.New("simexec: parent process is dead")
	}
	if c.ctx != nil {
		select {
		case <-c.ctx.Done():
			return c.ctx.Err()
		default:
		}
	}
	h := H
	if h == nil {
		return &os.PathError{Op: "fork/exec", Path: c.Path, Err: ErrNotFound}
	}
	c.started = true
	c.done = make(chan error, 1)
	killCtx, kill := context.WithCancel(context.Background())
	inv := &Invocation{Cmd: c, Ctx: killCtx}
	c.Process = &Process{Pid: 1, kill: kill, term: func() {
		if inv.TrapTerm {
			inv.Termed = true
			simrt.Probe("sigterm-trapped-by-command")
			return
		}
		kill()
	}}
	if s := simrt.S; s != nil {
		inv.StartStep = s.Steps()
		inv.StartSim = s.SimElapsed()
	}
	inv.Sleep = func(d time.Duration) bool {
		if d <= 0 {
			simrt.Yield("simexec:sleep0")
			return killCtx.Err() == nil
		}
		sl := simrt.NewSelect("simexec:sleep")
		simrt.SelRecv(sl, killCtx.Done())
		simrt.SelRecv(sl, time.After(d))
		return sl.Wait() == 1
	}
	result := make(chan error, 1)
	simrt.Go("simexec:child", func() {
		defer kill()
		code, startErr := h(inv)
		switch {
		case startErr != nil:
			result <- startErr
		case killCtx.Err() != nil:
			result <- &ExitError{Killed: true}
		case code != 0:
			result <- &ExitError{Code: code}
		default:
			result <- nil
		}
	})
	// watcher: os/exec kills the child when the context is done
	simrt.Go("simexec:watch", func() {
		var ctxDone <-chan struct{}
		if c.ctx != nil {
			ctxDone = c.ctx.Done()
		}
		sl := simrt.NewSelect("simexec:watch")
		simrt.SelRecv(sl, result)
		simrt.SelRecv(sl, ctxDone)
		switch sl.Wait() {
		case 0:
			err, _ := simrt.RecvAs(sl, 0, (<-chan error)(result))
			c.done <- err
		case 1:
			simrt.Probe("command-killed-by-context")
			// os/exec: call Cancel (default: kill the process); if the process has not
			// exited WaitDelay later, kill it
			if c.Cancel != nil {
				c.Cancel()
			} else {
				kill()
			}
			if killCtx.Err() == nil && c.WaitDelay > 0 {
				sl2 := simrt.NewSelect("simexec:waitdelay")
				simrt.SelRecv(sl2, result)
				simrt.SelRecv(sl2, time.After(c.WaitDelay))
				if sl2.Wait() == 0 {
					err, _ := simrt.RecvAs(sl2, 0, (<-chan error)(result))
					if err == nil {
						c.done <- nil
						return
					}
					c.done <- c.ctx.Err()
					return
				}
				simrt.Probe("command-killed-after-wait-delay")
				kill()
			}
			err := simrt.Recv((<-chan error)(result), "simexec:reap")
			if err == nil {
				// finished on its own just before the kill took effect
				c.done <- nil
				return
			}
			c.done <- c.ctx.Err()
		}
	})
	return nil
}

func (c *Cmd) Wait() error {
	if !c.started {
		return errors.New("exec: not started")
	}
	if c.real != nil {
		err := c.real.Wait()
		var ee *realexec.ExitError
		if errors.As(err, &ee) {
			return &ExitError{Code: ee.ExitCode(), Killed: ee.ExitCode() == -1, Stderr: ee.Stderr}
		}
		return err
	}
	err := simrt.Recv((<-chan error)(c.done), "simexec:wait")
	return err
}
