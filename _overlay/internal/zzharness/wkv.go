package zzharness

import (
	"bytes"
	"context"
	"fmt"
	"io"
	"os"
	"path/filepath"
	"sort"
	"strings"
	"sync"
	"time"

	"github.com/anishathalye/porcupine"
	"go.uber.org/zap"
	"go.uber.org/zap/zapcore"

	"grog/internal/caching/backends"
	"grog/internal/config"
	"grog/internal/console"
	"grog/internal/zzsim/simos"
	"grog/internal/zzsim/simrt"
)

// W-kv: the file-system cache backend alone under 2-4 concurrent client processes issuing
// Set / Get / Exists / Delete on 2-3 keys with unique values, I/O faults and crashes. The
// recorded history (invoke / return stamped with the scheduler's event sequence number) is
// checked against a per-key register with porcupine: "a reader never sees a partially
// written value" and "a value becomes visible atomically" stated as linearizability.

type kvOp struct {
	Client int    `json:"client"`
	Kind   string `json:"kind"` // set | get | exists | delete
	Key    string `json:"key"`
	Val    string `json:"val,omitempty"`
	Out    string `json:"out,omitempty"` // get: value | "<absent>" | "<error>"; exists: "true"/"false"/"<error>"; set/delete: "ok"/"<error>"
	Call   int    `json:"call"`
	Ret    int    `json:"ret"` // -1: never returned (client killed)
}

type wkv struct {
	ops []kvOp
}

func (w *wkv) Name() string { return "wkv" }

func init() {
	worldRegistry["wkv"] = func(params map[string]string) func() World {
		return func() World { return &wkv{} }
	}
}

func (w *wkv) Drive(s *simrt.Sched, out *RunResult) {
	c := s.C
	base := scratchBase()
	os.MkdirAll(base, 0755)
	defer os.RemoveAll(base)
	simos.Reset()
	simos.ResetTemp()
	ws := filepath.Join(base, "ws")
	os.MkdirAll(ws, 0755)
	config.Global = config.WorkspaceConfig{Root: filepath.Join(base, "root"), WorkspaceRoot: ws, DisableNonDeterministicLogging: true}
	logger := console.NewFromSugared(zap.NewNop().Sugar(), zapcore.ErrorLevel)
	ctx := console.WithLogger(context.Background(), logger)

	nClients := 2 + c.Choose(3, "clients")
	nKeys := 2 + c.Choose(2, "keys")
	opsPer := 2 + c.Choose(4, "ops-per-client")
	faulty := c.Choose(2, "faulty") == 1
	if faulty {
		kinds := map[string]bool{}
		for _, k := range ioFaultKinds {
			if c.Choose(2, "faultkind:"+k) == 1 {
				kinds[k] = true
			}
		}
		simos.Plan = &simos.FaultPlan{Budget: 1 + c.Choose(3, "fault-budget"), PerMille: 60, Kinds: kinds}
	}
	var mu sync.Mutex
	serial := 0
	var procs []*simrt.Proc
	for ci := 0; ci < nClients; ci++ {
		ci := ci
		type plan struct {
			kind, key, val string
		}
		var plans []plan
		for k := 0; k < opsPer; k++ {
			kind := pick(c, "kv-op", "set", "get", "set", "get", "exists", "delete")
			key := fmt.Sprintf("k%d", c.Choose(nKeys, "kv-key"))
			val := ""
			if kind == "set" {
				serial++
				val = fmt.Sprintf("v%d-c%d-%s", serial, ci, strings.Repeat("x", c.Choose(40, "vlen")))
			}
			plans = append(plans, plan{kind, key, val})
		}
		crashAt := 0
		if faulty && c.Choose(4, "client-crash") == 3 {
			crashAt = 1 + c.Choose(12, "crash-op")
		}
		p := s.StartProc(fmt.Sprintf("client%d", ci), func() {
			if crashAt > 0 {
				simos.PD(simrt.CurProc()).CrashAtOp = crashAt
			}
			cache, err := backends.NewFileSystemCache(ctx)
			if err != nil {
				return
			}
			for _, pl := range plans {
				mu.Lock()
				idx := len(w.ops)
				w.ops = append(w.ops, kvOp{Client: ci, Kind: pl.kind, Key: pl.key, Val: pl.val, Call: s.Steps(), Ret: -1})
				mu.Unlock()
				res := "ok"
				switch pl.kind {
				case "set":
					if err := cache.Set(ctx, "kv", pl.key, bytes.NewReader([]byte(pl.val))); err != nil {
						res = "<error>"
					}
				case "get":
					rc, err := cache.Get(ctx, "kv", pl.key)
					if err != nil {
						if os.IsNotExist(err) {
							res = "<absent>"
						} else {
							res = "<error>"
						}
					} else {
						b, rerr := simos.ReadAll(rc, "wkv:read")
						rc.Close()
						if rerr != nil {
							res = "<error>"
						} else {
							res = string(b)
						}
					}
				case "exists":
					ok, err := cache.Exists(ctx, "kv", pl.key)
					if err != nil {
						res = "<error>"
					} else {
						res = fmt.Sprint(ok)
					}
				case "delete":
					if err := cache.Delete(ctx, "kv", pl.key); err != nil {
						res = "<error>"
					}
				}
				if simrt.CurProc().Dead() {
					return
				}
				mu.Lock()
				w.ops[idx].Out = res
				w.ops[idx].Ret = s.Steps()
				mu.Unlock()
				simrt.Yield("wkv:between-ops")
			}
		})
		procs = append(procs, p)
	}
	for _, p := range procs {
		s.WaitProc(p)
	}
	mu.Lock()
	out.Decoded = map[string]any{"clients": nClients, "keys": nKeys, "faulty": faulty, "history": append([]kvOp(nil), w.ops...)}
	mu.Unlock()
	out.Shape = hashStr(fmt.Sprint(nClients, nKeys, opsPer, faulty))
	out.Nontrivial = len(w.ops) >= 4
	_ = io.EOF
	_ = time.Second
}

// ---------------------------------------------------------------- porcupine model

type kvIn struct {
	kind, key, val string
}

const absent = "\x00absent"

var kvModel = porcupine.NondeterministicModel{
	Partition: func(history []porcupine.Operation) [][]porcupine.Operation {
		m := map[string][]porcupine.Operation{}
		for _, op := range history {
			k := op.Input.(kvIn).key
			m[k] = append(m[k], op)
		}
		keys := make([]string, 0, len(m))
		for k := range m {
			keys = append(keys, k)
		}
		sort.Strings(keys)
		var out [][]porcupine.Operation
		for _, k := range keys {
			out = append(out, m[k])
		}
		return out
	},
	Init: func() []interface{} { return []interface{}{absent} },
	Step: func(state, input, output interface{}) []interface{} {
		st := state.(string)
		in := input.(kvIn)
		o := output.(string)
		switch in.kind {
		case "set":
			if o == "ok" {
				return []interface{}{in.val}
			}
			// failed or cut by a crash: possibly applied
			return []interface{}{st, in.val}
		case "delete":
			if o == "ok" {
				return []interface{}{absent}
			}
			return []interface{}{st, absent}
		case "get":
			switch o {
			case "<error>", "<unknown>":
				return []interface{}{st}
			case "<absent>":
				if st == absent {
					return []interface{}{st}
				}
				return nil
			default:
				if st == o {
					return []interface{}{st}
				}
				return nil
			}
		case "exists":
			switch o {
			case "<error>", "<unknown>":
				return []interface{}{st}
			case "true":
				if st != absent {
					return []interface{}{st}
				}
				return nil
			default:
				if st == absent {
					return []interface{}{st}
				}
				return nil
			}
		}
		return nil
	},
}

// Post runs outside the bubble: porcupine uses real goroutines and a real timeout.
func (w *wkv) Post(out *RunResult) {
	if len(out.Violations) > 0 {
		return
	}
	var ops []porcupine.Operation
	maxT := int64(0)
	for _, o := range w.ops {
		if int64(o.Ret) > maxT {
			maxT = int64(o.Ret)
		}
		if int64(o.Call) > maxT {
			maxT = int64(o.Call)
		}
	}
	for i, o := range w.ops {
		ret := int64(o.Ret)
		outv := o.Out
		if o.Ret < 0 {
			// never returned (client killed): open-ended, result unknown
			ret = maxT + 10 + int64(i)
			outv = "<unknown>"
			if o.Kind == "set" || o.Kind == "delete" {
				outv = "<error>"
			}
		}
		ops = append(ops, porcupine.Operation{ClientId: o.Client, Input: kvIn{o.Kind, o.Key, o.Val}, Call: int64(o.Call), Output: outv, Return: ret})
	}
	// a value that no Set ever wrote (partial / garbage) is reported on its own
	written := map[string]bool{}
	for _, o := range w.ops {
		if o.Kind == "set" {
			written[o.Key+"\x00"+o.Val] = true
		}
	}
	for _, o := range w.ops {
		if o.Kind == "get" && !strings.HasPrefix(o.Out, "<") && o.Ret >= 0 && !written[o.Key+"\x00"+o.Out] {
			out.Violations = append(out.Violations, simrt.Violation{Prop: "C07", Class: "partial-value-read", Signature: "fs-backend",
				Detail: fmt.Sprintf("client %d read %q for key %s, which no Set ever wrote (a partially written entry was visible)", o.Client, o.Out, o.Key)})
			return
		}
	}
	res := porcupine.CheckOperationsTimeout(kvModel.ToModel(), ops, 20*time.Second)
	if res == porcupine.Illegal {
		out.Violations = append(out.Violations, simrt.Violation{Prop: "C07", Class: "non-linearizable-history", Signature: "fs-backend",
			Detail: fmt.Sprintf("the history of %d operations on the file-system cache backend is not linearizable against a per-key register (see decoded.history)", len(ops))})
	}
	// porcupine.Unknown (timeout) is inconclusive and never reported
}
