package zzharness

// extraWorld resolves worlds registered by other files.
var worldRegistry = map[string]func(params map[string]string) func() World{}

func extraWorld(name string, params map[string]string) func() World {
	if f, ok := worldRegistry[name]; ok {
		return f(params)
	}
	return nil
}
