package zzharness

import (
	"bytes"
	"context"
	"errors"
	"fmt"
	"io"
	"os"
	"path/filepath"
	"sort"
	"strconv"
	"strings"
	"sync"
	"time"

	"google.golang.org/protobuf/proto"

	"grog/internal/hashing"
	"grog/internal/proto/gen"
	"grog/internal/zzsim/simexec"
	"grog/internal/zzsim/simos"
	"grog/internal/zzsim/simrt"
)

// ---------------------------------------------------------------------------------------
// Fake S3 object store behind grog's S3Client interface (NewS3CacheWithClient), shared by
// the machines of a run. Every call is a sim point and may be failed by the remote fault plan.
// ---------------------------------------------------------------------------------------

type fakeS3 struct {
	mu      sync.Mutex
	objects map[string][]byte
	c       *simrt.Choices
	// fault plan
	budget  int
	rate    int
	kinds   map[string]bool
	fired   int // faults fired during the current invocation
	latency bool
	// bookkeeping for the audit: which invocation last wrote an object, and whether the
	// harness removed remote objects (then only freshly written results are audited)
	inv    int
	putInv map[string]int
	lossy  bool
}

var errS3 = errors.New("fake s3: 503 service unavailable (injected)")

type noSuchKey struct{ key string }

func (e *noSuchKey) Error() string { return "NoSuchKey: " + e.key }

func (f *fakeS3) fault(kind string) bool {
	if f.budget <= 0 || !f.kinds[kind] {
		return false
	}
	if f.c.ChooseBiased(2, f.rate, "fault:"+kind) == 0 {
		return false
	}
	f.budget--
	f.fired++
	simrt.Fault(kind)
	return true
}

func (f *fakeS3) delay() {
	if f.latency {
		simrt.Block0(func() { time.Sleep(20 * time.Millisecond) }, "fakes3:latency")
	} else {
		simrt.Yield("fakes3")
	}
}

func dead() bool {
	p := simrt.CurProc()
	return p != nil && p.Dead()
}

func (f *fakeS3) GetObject(ctx context.Context, bucket, key string) (io.ReadCloser, error) {
	f.delay()
	if dead() || ctx.Err() != nil {
		return nil, context.Canceled
	}
	if f.fault("remote-get-error") {
		return nil, errS3
	}
	f.mu.Lock()
	data, ok := f.objects[bucket+"/"+key]
	f.mu.Unlock()
	if !ok {
		return nil, &noSuchKey{key}
	}
	if len(data) > 1 && f.fault("remote-read-midstream") {
		return io.NopCloser(&failingReader{data: data[:len(data)/2]}), nil
	}
	return io.NopCloser(bytes.NewReader(append([]byte(nil), data...))), nil
}

type failingReader struct {
	data []byte
	pos  int
}

func (r *failingReader) Read(p []byte) (int, error) {
	if r.pos >= len(r.data) {
		return 0, errors.New("fake s3: connection reset mid-stream (injected)")
	}
	n := copy(p, r.data[r.pos:])
	r.pos += n
	return n, nil
}

func (f *fakeS3) PutObject(ctx context.Context, bucket, key string, body io.Reader) error {
	f.delay()
	if dead() || ctx.Err() != nil {
		return context.Canceled
	}
	if f.fault("remote-put-error") {
		return errS3
	}
	data, err := io.ReadAll(body)
	simrt.Yield("fakes3:put-read")
	if err != nil {
		return err
	}
	if dead() {
		return context.Canceled
	}
	f.mu.Lock()
	f.objects[bucket+"/"+key] = data
	if f.putInv == nil {
		f.putInv = map[string]int{}
	}
	f.putInv[bucket+"/"+key] = f.inv
	f.mu.Unlock()
	if f.fault("remote-put-applied-error") {
		simrt.Probe("remote-put-applied-but-error")
		return errS3
	}
	return nil
}

func (f *fakeS3) DeleteObject(ctx context.Context, bucket, key string) error {
	f.delay()
	if dead() {
		return context.Canceled
	}
	if f.fault("remote-put-error") {
		return errS3
	}
	f.mu.Lock()
	delete(f.objects, bucket+"/"+key)
	f.mu.Unlock()
	return nil
}

func (f *fakeS3) ObjectExists(ctx context.Context, bucket, key string) (bool, error) {
	f.delay()
	if dead() || ctx.Err() != nil {
		return false, context.Canceled
	}
	if f.fault("remote-head-error") {
		return false, errS3
	}
	f.mu.Lock()
	_, ok := f.objects[bucket+"/"+key]
	f.mu.Unlock()
	return ok, nil
}

// auditRemote: every target result in the remote store decodes and every blob it references
// (through trees) is present remotely (C08: no dangling references).
func (w *wbuild) auditRemote(f *fakeS3, when string) {
	f.mu.Lock()
	defer f.mu.Unlock()
	report := func(class, sig, detail string) {
		w.s.Report(simrt.Violation{Prop: "C08", Class: class, Signature: sig, Detail: when + ": " + detail})
	}
	keys := make([]string, 0, len(f.objects))
	for k := range f.objects {
		keys = append(keys, k)
	}
	sort.Strings(keys)
	hasBlob := func(targetKey, digest string) bool {
		i := strings.LastIndex(targetKey, "/target/")
		_, ok := f.objects[targetKey[:i]+"/cas/"+digest]
		return ok
	}
	for _, k := range keys {
		if f.lossy && strings.Contains(k, "/target/") && f.putInv[k] != f.inv {
			continue // objects were removed behind grog's back: only results written by this build must be complete
		}
		if !strings.Contains(k, "/target/") {
			if i := strings.LastIndex(k, "/cas/"); i >= 0 {
				if got := hashing.HashBytes(f.objects[k]); got != k[i+5:] {
					report("mismatching-remote-blob", "cas", fmt.Sprintf("%s holds content hashing to %s", k, got))
				}
			}
			continue
		}
		tr := &gen.TargetResult{}
		if err := proto.Unmarshal(f.objects[k], tr); err != nil {
			report("undecodable-remote-result", "target", fmt.Sprintf("%s does not decode: %v", k, err))
			continue
		}
		for _, o := range tr.Outputs {
			switch kk := o.Kind.(type) {
			case *gen.Output_File:
				if d := kk.File.GetDigest().GetHash(); !hasBlob(k, d) {
					report("dangling-remote-reference", "file", fmt.Sprintf("remote %s references file blob %s (%s) that is not in the remote store", k, d, kk.File.GetPath()))
				}
			case *gen.Output_Directory:
				td := kk.Directory.GetTreeDigest().GetHash()
				if !hasBlob(k, td) {
					report("dangling-remote-reference", "tree", fmt.Sprintf("remote %s references tree %s (%s) that is not in the remote store", k, td, kk.Directory.GetPath()))
					continue
				}
				i := strings.LastIndex(k, "/target/")
				tree := &gen.Tree{}
				if err := proto.Unmarshal(f.objects[k[:i]+"/cas/"+td], tree); err != nil {
					report("undecodable-remote-result", "tree", fmt.Sprintf("remote tree %s does not decode: %v", td, err))
					continue
				}
				for _, d := range append([]*gen.Directory{tree.Root}, tree.Children...) {
					if d == nil {
						continue
					}
					for _, fn := range d.Files {
						if h := fn.GetDigest().GetHash(); !hasBlob(k, h) {
							report("dangling-remote-reference", "tree-file", fmt.Sprintf("remote %s: tree %s references file blob %s (%s) that is not in the remote store", k, td, h, fn.Name))
						}
					}
				}
			}
		}
	}
}

// ---------------------------------------------------------------------------------------
// mode=remote: two machines with the same workspace identity (same absolute workspace path,
// separate local cache roots, separate checkouts swapped in and out) sharing the fake S3.
// ---------------------------------------------------------------------------------------

type remoteMachine struct {
	*Machine
	store string // where this machine's checkout is parked while the other one is active
	cm    *cacheModel
}

func (w *wbuild) driveRemote(s *simrt.Sched, out *RunResult, u *Universe, cs *wbCase, feats []string) {
	c := w.c
	f := &fakeS3{objects: map[string][]byte{}, c: c, kinds: map[string]bool{}}
	simos.SetHook("s3client", f)
	faulty := w.focus == "faults"
	if faulty {
		for _, k := range []string{"remote-get-error", "remote-put-error", "remote-put-applied-error", "remote-head-error", "remote-read-midstream"} {
			if c.Choose(2, "faultkind:"+k) == 1 {
				f.kinds[k] = true
			}
		}
		f.budget = 1 + c.Choose(3, "fault-budget")
		f.rate = []int{20, 60, 150}[c.Choose(3, "fault-rate")]
		f.latency = c.Choose(2, "remote-latency") == 1
	}
	ws := filepath.Join(w.base, "ws")
	mk := func(name string) *remoteMachine {
		m := &Machine{Name: name, WS: ws, Root: filepath.Join(w.base, name, "root"), written: map[string]bool{}}
		os.MkdirAll(m.Root, 0755)
		st := filepath.Join(w.base, name, "checkout")
		os.MkdirAll(st, 0755)
		os.WriteFile(filepath.Join(st, "grog.toml"), []byte("# simulated workspace\n"), 0644)
		return &remoteMachine{Machine: m, store: st, cm: newCacheModel()}
	}
	A, B := mk("A"), mk("B")
	w.remoteNH = map[string]string{}
	remote := newCacheModel() // what the remote namespace certainly holds
	var active *remoteMachine
	activate := func(m *remoteMachine) {
		if active == m {
			return
		}
		if active != nil {
			os.Rename(ws, active.store)
		}
		os.Rename(m.store, ws)
		active = m
		w.syncWorkspace(m.Machine, w.U)
	}
	base := InvOpts{Workers: 1 + c.Choose(4, "workers"), LoadOutputs: "all", Hash: pick(c, "hash", "xxh3", "sha256"), EnableCache: true, Platform: "linux/amd64", Remote: true}
	nops := 3 + c.Choose(5, "nops")
	shape := []string{fmt.Sprint(len(u.Specs), feats)}
	builds := 0
	var snapshots []*Universe
	doBuild := func(m *remoteMachine, req BuildReq, opts InvOpts, note string) {
		activate(m)
		ext0 := map[string]string{}
		for k, v := range w.U.Ext {
			ext0[k] = v
		}
		w.dirInWay = map[string]bool{}
		for _, l := range w.U.Labels() {
			sp := w.U.Specs[l]
			for _, o := range sp.Outs {
				if o.Kind != "dir" {
					if st, err := os.Lstat(filepath.Join(ws, sp.Pkg, o.Path)); err == nil && st.IsDir() {
						w.dirInWay[l] = true // as in the single-machine driver: left open
					}
				}
			}
		}
		f.fired = 0
		f.inv++
		if opts.Remote {
			// read-through: whatever the remote certainly holds is available to this machine
			for k := range remote.strict {
				if !m.cm.strict[k] {
					m.cm.strict[k] = true
					simrt.Probe("remote-entry-available-to-other-machine")
				}
			}
			for k := range remote.loose {
				m.cm.loose[k] = true
			}
			for k := range remote.unc {
				m.cm.unc[k] = true
			}
			for l, ps := range remote.produced {
				if m.cm.produced[l] == nil {
					m.cm.produced[l] = map[string]*semState{}
				}
				for k, v := range ps {
					m.cm.produced[l][k] = v
				}
			}
		}
		before := map[string]bool{}
		for k := range m.cm.strict {
			before[k] = true
		}
		// targets none of whose outputs are in the checkout: restoring them has to read the blobs
		absentBefore := map[string]bool{}
		for _, l := range w.U.Labels() {
			sp := w.U.Specs[l]
			all := len(sp.Outs) > 0
			for _, e := range diskListing(ws, sp) {
				if e.Kind != "missing" {
					all = false
				}
			}
			absentBefore[l] = all
		}
		res := w.invoke(m.Machine, req, opts, nil)
		builds++
		h := HistOp{Op: req.Kind, Req: &req, Opts: &opts, Note: strings.TrimSpace(note + " machine=" + m.Name), Exit: &res.ExitCode}
		for _, e := range res.Events {
			if e.Kind == "cmd" {
				h.Execd = append(h.Execd, e.Label)
			}
		}
		cs.History = append(cs.History, h)
		w.fs = nil
		if f.fired > 0 {
			w.fs = &faultState{fired: f.fired}
		}
		w.checkBuild(res, req, opts, m.cm, ext0)
		w.fs = nil
		w.auditCacheWith(m.Machine, fmt.Sprintf("local cache of %s after invocation %d", m.Name, res.N), func(d string) bool {
			f.mu.Lock()
			defer f.mu.Unlock()
			if f.lossy {
				return true // the harness removed remote blobs: dangling references are expected
			}
			for k := range f.objects {
				if strings.HasSuffix(k, "/cas/"+d) {
					return true
				}
			}
			return false
		})
		if opts.Remote && f.fired > 0 {
			// a remote fault hit this invocation: what it executed may or may not be in the remote
			evl := NewEval(w.U, opts.Platform)
			for _, e := range res.Events {
				if e.Kind == "cmd" && w.U.Specs[e.Label] != nil {
					remote.unc[evl.Strict(e.Label)] = true
					m.cm.markUnc(evl, e.Label)
				}
			}
		}
		if opts.Remote && f.fired == 0 {
			// write-through: results recorded by this build are in the remote afterwards
			evl := NewEval(w.U, opts.Platform)
			for _, e := range res.Events {
				if e.Kind == "cmd" && e.Exit == 0 && !e.Killed && w.U.Specs[e.Label] != nil {
					if k := evl.Strict(e.Label); m.cm.strict[k] && w.recordedNow[k] {
						remote.strict[k] = true
						remote.loose[evl.Loose(e.Label)] = true
					}
				}
			}
			_ = before
			for l, ps := range m.cm.produced {
				if remote.produced[l] == nil {
					remote.produced[l] = map[string]*semState{}
				}
				for k, v := range ps {
					remote.produced[l][k] = v
				}
			}
			if res.ExitCode == 0 {
				w.auditRemote(f, fmt.Sprintf("remote store after successful invocation %d on %s", res.N, m.Name))
				// read-through fills the local cache with what had to be read
				w.checkLocalFilled(m, req, opts, absentBefore, res)
			}
		}
		shape = append(shape, fmt.Sprint(m.Name, req.Patterns, len(h.Execd), res.ExitCode))
	}
	activate(A)
	firstWithoutRemote := c.Choose(3, "a-starts-without-remote") == 0
	for i := 0; i < nops && len(s.Violations) == 0; i++ {
		ops := []string{"build-a", "edit", "build-b", "build-a", "edit", "build-b", "wipe-outputs", "remote-loses-blob"}
		if w.g.Features["taint"] {
			ops = append(ops, "taint")
		}
		switch ops[c.Choose(len(ops), "op")] {
		case "taint":
			// `grog taint` on the active machine; the marker goes through the mirror as well, so
			// whether the other machine sees it is left open (MAY on both until executed)
			labels := w.U.Labels()
			var nh []string
			for _, l := range labels {
				if w.U.Specs[l].NonHermetic {
					nh = append(nh, l)
				}
			}
			if len(nh) > 0 && chance(c, 3, 4, "taint-non-hermetic") {
				// forcing a non-hermetic target to run again while the environment has moved on:
				// same key, new bytes - the re-recorded result must replace the old one everywhere
				labels = nh
				nu := w.U.Clone()
				e, _ := strconv.Atoi(nu.Ext["epoch"])
				nu.Ext["epoch"] = strconv.Itoa(e + 1)
				w.mu.Lock()
				w.U = nu
				w.mu.Unlock()
				cs.History = append(cs.History, HistOp{Op: "edit", Edit: &Edit{Op: "epoch-tick", Detail: nu.Ext["epoch"]}})
			}
			l := labels[c.Choose(len(labels), "taint-target")]
			req := BuildReq{Kind: "taint", Patterns: []string{l}}
			f.fired = 0
			f.inv++
			res := w.invoke(active.Machine, req, base, nil)
			for _, mm := range []*remoteMachine{A, B} {
				mm.cm.taint[l] = true
				mm.cm.taintUnc[l] = true
			}
			cs.History = append(cs.History, HistOp{Op: "taint", Req: &req, Exit: &res.ExitCode, Note: "machine=" + active.Name})
			shape = append(shape, "taint")
		case "remote-loses-blob":
			// the remote store loses a blob (lifecycle rule, manual cleanup): results that
			// reference it degrade to a miss; whoever re-executes must upload it again
			f.mu.Lock()
			var blobs []string
			for k := range f.objects {
				if strings.Contains(k, "/cas/") {
					blobs = append(blobs, k)
				}
			}
			sort.Strings(blobs)
			note := "nothing to lose"
			if len(blobs) > 0 {
				k := blobs[c.Choose(len(blobs), "lost-blob")]
				delete(f.objects, k)
				f.lossy = true
				w.remoteLossy = true
				note = k
				simrt.Fault("remote-missing-object")
			}
			f.mu.Unlock()
			// nothing the remote model knows is certain any more
			for k := range remote.strict {
				remote.unc[k] = true
			}
			for _, mm := range []*remoteMachine{A, B} {
				for k := range mm.cm.strict {
					mm.cm.unc[k] = true
				}
				for k := range mm.cm.loose {
					mm.cm.uncL[k] = true
				}
			}
			cs.History = append(cs.History, HistOp{Op: "remote-loses-blob", Note: note})
			if i%2 == 0 {
				// and the next builder starts from a fresh checkout
				for _, l := range w.U.Labels() {
					removeOutputs(ws, w.U.Specs[l])
				}
			}
		case "edit":
			snapshots = append(snapshots, w.U.Clone())
			nu, ed := genEdit(c, w.U, w.g, snapshots)
			if ed.Op == "toggle-nocache" && ed.Target != "" {
				if w.toggled == nil {
					w.toggled = map[string]bool{}
				}
				w.toggled[ed.Target] = true
			}
			w.mu.Lock()
			w.U = nu
			w.mu.Unlock()
			w.syncWorkspace(active.Machine, nu)
			cs.History = append(cs.History, HistOp{Op: "edit", Edit: &ed})
			shape = append(shape, ed.Op)
		case "build-a":
			opts := base
			opts.Workers = 1 + c.Choose(4, "workers")
			if firstWithoutRemote && builds == 0 {
				opts.Remote = false
			}
			doBuild(A, genBuildReq(c, w.U, w.g), opts, "")
		case "build-b":
			opts := base
			opts.Workers = 1 + c.Choose(4, "workers")
			doBuild(B, genBuildReq(c, w.U, w.g), opts, "")
		case "wipe-outputs":
			for _, l := range w.U.Labels() {
				removeOutputs(ws, w.U.Specs[l])
			}
			cs.History = append(cs.History, HistOp{Op: "wipe-outputs", Note: "machine=" + active.Name})
		}
	}
	if len(s.Violations) == 0 {
		all := BuildReq{Kind: "build", Patterns: []string{"//..."}}
		doBuild(A, all, base, "final")
		if len(s.Violations) == 0 {
			doBuild(B, all, base, "final on the other machine")
		}
	}
	out.Shape = hashStr(shape...)
	out.Nontrivial = builds >= 2
	_ = simexec.H
}

// checkLocalFilled: after a successful build with the remote configured, the blobs of every
// selected target's current outputs are in this machine's local cache (read-through fill /
// write-through), C08.
func (w *wbuild) checkLocalFilled(m *remoteMachine, req BuildReq, opts InvOpts, absentBefore map[string]bool, res *InvResult) {
	executed := map[string]bool{}
	for _, e := range res.Events {
		if e.Kind == "cmd" {
			executed[e.Label] = true
		}
	}
	sel := w.U.Select(req, opts.Platform)
	ev := NewEval(w.U, opts.Platform)
	have := map[string]bool{}
	for _, cd := range cacheDirs(m.Machine) {
		ents, _ := os.ReadDir(filepath.Join(cd, "cas"))
		for _, e := range ents {
			have[e.Name()] = true
		}
	}
	for _, l := range sortedKeys(sel.Must) {
		sp := w.U.Specs[l]
		if sp.NonHermetic || sp.HasTag("no-cache") || sp.Fail != "" || w.U.ExtFail(sp) != "" || len(sp.Checks) > 0 || !absentBefore[l] || executed[l] {
			continue
		}
		failedDep := false
		for _, d := range w.U.Topo([]string{l}) {
			ds := w.U.Specs[d]
			if ds.Fail != "" || w.U.ExtFail(ds) != "" || len(ds.Checks) > 0 {
				failedDep = true
			}
		}
		if failedDep {
			continue
		}
		for _, e := range ev.Clean(l) {
			if e.Kind != "file" {
				continue
			}
			if d := hashing.HashBytes([]byte(e.Data)); !have[d] {
				w.s.Report(simrt.Violation{Prop: "C08", Class: "local-cache-not-filled", Signature: "missing-blob",
					Detail: fmt.Sprintf("after a successful build on machine %s the local cache lacks blob %s of %s (%s)", m.Name, d, l, e.Path)})
				return
			}
		}
	}
}
