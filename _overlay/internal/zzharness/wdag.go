package zzharness

import (
	"context"
	"errors"
	"fmt"
	"os"
	"sort"
	"strings"
	"sync"
	"time"

	tea "github.com/charmbracelet/bubbletea"
	"go.uber.org/zap"
	"go.uber.org/zap/zapcore"

	"grog/internal/config"
	"grog/internal/console"
	"grog/internal/dag"
	"grog/internal/label"
	"grog/internal/model"
	"grog/internal/worker"
	"grog/internal/zzsim/simrt"
)

// W-dag: the real dag.Walker and the real worker.TaskWorkerPool driven by a simulated callback
// that has the shape of the executor's callback (pool.Run(task); task takes simulated time,
// may fail, observes cancellation).

type dagCase struct {
	N         int      `json:"n"`
	Shape     string   `json:"shape"`
	Edges     [][2]int `json:"edges,omitempty"` // [dependency, dependant]
	NEdges    int      `json:"nedges"`
	Unsel     []int    `json:"unselected,omitempty"`
	Workers   int      `json:"workers"`
	FailFast  bool     `json:"fail_fast"`
	Fail      []int    `json:"fail,omitempty"`
	LatMS     []int    `json:"lat_ms,omitempty"`
	CancelMS  int      `json:"cancel_ms"` // -1: no external cancellation
	LatencyCl string   `json:"latency_class"`
}

type wdag struct {
	maxN int
}

func (w *wdag) Name() string { return "wdag" }

func genDagCase(c *simrt.Choices, maxN int) *dagCase {
	cs := &dagCase{CancelMS: -1}
	// size class
	var n int
	switch sc := c.Choose(100, "size-class"); {
	case sc < 55:
		n = 1 + c.Choose(8, "n")
	case sc < 85:
		n = 9 + c.Choose(52, "n")
	case sc < 97:
		n = 61 + c.Choose(340, "n")
	default:
		n = 401 + c.Choose(2600, "n")
	}
	if maxN > 0 && n > maxN {
		n = 1 + n%maxN
	}
	cs.N = n
	shapes := []string{"random", "chain", "outtree", "intree", "layers", "diamond", "independent", "vees"}
	cs.Shape = shapes[c.Choose(len(shapes), "shape")]
	if f := os.Getenv("SIM_FORCE_SHAPE"); f != "" {
		cs.Shape = f
	}
	add := func(dep, dependant int) { cs.Edges = append(cs.Edges, [2]int{dep, dependant}) }
	switch cs.Shape {
	case "chain":
		for i := 1; i < n; i++ {
			add(i-1, i)
		}
	case "outtree": // node i is a dependency of 2i+1, 2i+2
		for i := 1; i < n; i++ {
			add((i-1)/2, i)
		}
	case "intree": // node i depends on 2i+1, 2i+2
		for i := 1; i < n; i++ {
			add(i, (i-1)/2)
		}
	case "layers":
		width := 1 + c.Choose(4, "width")
		for i := width; i < n; i++ {
			layer := i / width
			for k := 0; k < width; k++ {
				d := (layer-1)*width + k
				if c.Choose(2, "edge") == 0 {
					add(d, i)
				}
			}
		}
	case "diamond":
		// a -> (b1..bk) -> c repeated
		i := 0
		for i+2 < n {
			k := 1 + c.Choose(3, "fan")
			if i+k+1 >= n {
				k = n - i - 2
			}
			for j := 1; j <= k; j++ {
				add(i, i+j)
				add(i+j, i+k+1)
			}
			i += k + 1
		}
	case "random":
		for i := 1; i < n; i++ {
			nd := c.Choose(4, "ndeps")
			seen := map[int]bool{}
			for k := 0; k < nd; k++ {
				d := c.Choose(i, "dep")
				if !seen[d] {
					seen[d] = true
					add(d, i)
				}
			}
		}
	case "independent":
	case "vees":
		// triples (a_i, b_i) -> c_i: with a_i failing and b_i succeeding later, c_i sits between a
		// cancellation and a completion of its two dependencies
		for i := 0; i+2 < n; i += 3 {
			add(i, i+2)
			add(i+1, i+2)
		}
	}
	// cap the number of downstream paths (graph.GetDescendants is path-exponential, C19;
	// the simulation must not trip over it)
	cs.Edges = capPaths(n, cs.Edges, 4000)
	// a dependency may be declared twice (two spellings of one label, or directly and through
	// an alias): the graph then carries duplicate edges
	if len(cs.Edges) > 0 && c.Choose(4, "dup-edges") == 0 {
		k := 1 + c.Choose(3, "ndup")
		for j := 0; j < k; j++ {
			cs.Edges = append(cs.Edges, cs.Edges[c.Choose(len(cs.Edges), "dup-edge")])
		}
		cs.Edges = capPaths(n, cs.Edges, 4000)
	}
	cs.NEdges = len(cs.Edges)

	// selection: all, or the dependency closure of a random subset
	sel := make([]bool, n)
	if c.Choose(3, "select-all") != 0 {
		for i := range sel {
			sel[i] = true
		}
	} else {
		deps := make([][]int, n)
		for _, e := range cs.Edges {
			deps[e[1]] = append(deps[e[1]], e[0])
		}
		var mark func(i int)
		mark = func(i int) {
			if sel[i] {
				return
			}
			sel[i] = true
			for _, d := range deps[i] {
				mark(d)
			}
		}
		k := 1 + c.Choose(3, "nroots")
		for j := 0; j < k; j++ {
			mark(c.Choose(n, "root"))
		}
	}
	for i, s := range sel {
		if !s {
			cs.Unsel = append(cs.Unsel, i)
		}
	}
	cs.Workers = 1 + c.Choose(8, "workers")
	cs.FailFast = c.Choose(3, "failfast") == 0
	// failures
	switch c.Choose(4, "fail-class") {
	case 0:
	case 1:
		cs.Fail = append(cs.Fail, c.Choose(n, "failnode"))
	default:
		k := 1 + c.Choose(3, "nfail")
		for j := 0; j < k; j++ {
			cs.Fail = append(cs.Fail, c.Choose(n, "failnode"))
		}
	}
	// latencies
	lats := [][]int{{0}, {0, 0, 1}, {1, 1, 5}, {0, 1, 1000, 1000}, {7, 13, 100}}
	lc := c.Choose(len(lats), "lat-class")
	cs.LatencyCl = fmt.Sprint(lats[lc])
	cs.LatMS = make([]int, n)
	for i := range cs.LatMS {
		cs.LatMS[i] = lats[lc][c.Choose(len(lats[lc]), "lat")]
	}
	if cs.Shape == "vees" {
		cs.Fail = nil
		for i := 0; i+2 < n; i += 3 {
			if c.Choose(2, "vee-fails") == 1 {
				cs.Fail = append(cs.Fail, i)
				cs.LatMS[i] = 0
				cs.LatMS[i+1] = []int{0, 1, 5}[c.Choose(3, "vee-lat")]
			}
		}
	}
	if c.Choose(12, "ext-cancel") == 0 {
		cs.CancelMS = c.Choose(50, "cancel-ms")
	}
	return cs
}

// capPaths drops edges (from the end) until every node has at most limit downstream paths.
func capPaths(n int, edges [][2]int, limit int) [][2]int {
	for {
		out := make([][]int, n)
		for _, e := range edges {
			out[e[0]] = append(out[e[0]], e[1])
		}
		paths := make([]float64, n)
		done := make([]bool, n)
		var rec func(i int) float64
		rec = func(i int) float64 {
			if done[i] {
				return paths[i]
			}
			done[i] = true
			var p float64
			for _, o := range out[i] {
				p += 1 + rec(o)
			}
			paths[i] = p
			return p
		}
		worst := 0.0
		for i := 0; i < n; i++ {
			if p := rec(i); p > worst {
				worst = p
			}
		}
		if worst <= float64(limit) || len(edges) == 0 {
			return edges
		}
		edges = edges[:len(edges)*3/4]
	}
}

type dagEvents struct {
	mu              sync.Mutex
	started         []int // count of starts
	ended           []bool
	succeeded       []bool
	failedRun       []bool
	cancelled       []bool
	cbTask          map[*simrt.Task]int
	running         int
	maxRun          int
	failSeen        bool // a failing node's routine has returned
	nStarts         int
	startsAfterFail int
}

func (w *wdag) Drive(s *simrt.Sched, out *RunResult) {
	c := s.C
	cs := genDagCase(c, w.maxN)
	if cs.N <= 40 {
		out.Decoded = cs
	} else {
		small := *cs
		small.Edges, small.LatMS, small.Unsel = nil, nil, nil
		out.Decoded = small
	}
	out.Shape = hashStr(fmt.Sprint(cs.N, cs.Shape, cs.Edges, cs.Unsel, cs.Workers, cs.FailFast, cs.Fail, cs.CancelMS))

	n := cs.N
	sel := make([]bool, n)
	for i := range sel {
		sel[i] = true
	}
	for _, u := range cs.Unsel {
		sel[u] = false
	}
	fail := make([]bool, n)
	for _, f := range cs.Fail {
		fail[f] = true
	}
	deps := make([][]int, n)
	for _, e := range cs.Edges {
		deps[e[1]] = append(deps[e[1]], e[0])
	}

	nodes := make([]model.BuildNode, n)
	index := map[label.TargetLabel]int{}
	nsel := 0
	for i := 0; i < n; i++ {
		t := &model.Target{Label: label.TL("p", fmt.Sprintf("n%04d", i)), IsSelected: sel[i]}
		nodes[i] = t
		index[t.Label] = i
		if sel[i] {
			nsel++
		}
	}
	g := dag.NewDirectedGraphFromTargets(nodes...)
	for _, e := range cs.Edges {
		if err := g.AddEdge(nodes[e[0]], nodes[e[1]]); err != nil {
			panic(err)
		}
	}

	config.Global = config.WorkspaceConfig{DisableNonDeterministicLogging: true, NumWorkers: cs.Workers}
	logger := console.NewFromSugared(zap.NewNop().Sugar(), zapcore.ErrorLevel)
	ctx, cancel := context.WithCancel(console.WithLogger(context.Background(), logger))
	defer cancel()

	ev := &dagEvents{
		started: make([]int, n), ended: make([]bool, n), succeeded: make([]bool, n),
		failedRun: make([]bool, n), cancelled: make([]bool, n), cbTask: map[*simrt.Task]int{},
	}
	s.OnTaskEnd = func(t *simrt.Task) {
		ev.mu.Lock()
		if i, ok := ev.cbTask[t]; ok && ev.failedRun[i] {
			ev.failSeen = true
		}
		ev.mu.Unlock()
	}
	lbl := func(i int) string { return nodes[i].GetLabel().String() }

	pool := worker.NewTaskWorkerPool[dag.CacheResult](logger, cs.Workers, func(tea.Msg) {}, nsel)
	pool.StartWorkers(ctx)

	cb := func(cctx context.Context, node model.BuildNode) (dag.CacheResult, error) {
		i := index[node.GetLabel()]
		ev.mu.Lock()
		ev.cbTask[simrt.Cur()] = i
		ev.mu.Unlock()
		return pool.Run(func(update worker.StatusFunc) (dag.CacheResult, error) {
			live := cctx.Err() == nil
			ev.mu.Lock()
			if live {
				ev.started[i]++
				ev.nStarts++
				if ev.started[i] > 1 {
					s.Report(simrt.Violation{Prop: "C03", Class: "executed-twice", Signature: "wdag", Detail: lbl(i) + " was started twice in one walk"})
				}
				for _, d := range deps[i] {
					if !ev.succeeded[d] {
						s.Report(simrt.Violation{Prop: "C03", Class: "started-before-dependency", Signature: "wdag",
							Detail: fmt.Sprintf("%s started although its dependency %s has not finished successfully (started=%d ended=%v)", lbl(i), lbl(d), ev.started[d], ev.ended[d])})
					}
				}
				if ev.failSeen && cs.FailFast {
					ev.startsAfterFail++
					s.Report(simrt.Violation{Prop: "C05", Class: "start-after-failure-observed", Signature: "wdag",
						Detail: lbl(i) + " started with a live context after a failing target's routine had returned (fail-fast)"})
				}
				ev.running++
				if ev.running > ev.maxRun {
					ev.maxRun = ev.running
				}
				if ev.running > cs.Workers {
					s.Report(simrt.Violation{Prop: "C03", Class: "too-many-running", Signature: "wdag",
						Detail: fmt.Sprintf("%d callbacks running with num_workers=%d", ev.running, cs.Workers)})
				}
			}
			ev.mu.Unlock()
			if !live {
				return dag.CacheMiss, cctx.Err()
			}
			update(worker.Status("running " + lbl(i)))
			wasCancelled := false
			if d := cs.LatMS[i]; d > 0 {
				sl := simrt.NewSelect("wdag:cb")
				simrt.SelRecv(sl, cctx.Done())
				simrt.SelRecv(sl, time.After(time.Duration(d)*time.Millisecond))
				if sl.Wait() == 0 {
					wasCancelled = true
				}
			} else {
				simrt.Yield("wdag:cb0")
			}
			ev.mu.Lock()
			ev.running--
			ev.ended[i] = true
			switch {
			case wasCancelled:
				ev.cancelled[i] = true
			case fail[i]:
				ev.failedRun[i] = true
			default:
				ev.succeeded[i] = true
			}
			ev.mu.Unlock()
			if wasCancelled {
				return dag.CacheMiss, cctx.Err()
			}
			if fail[i] {
				return dag.CacheMiss, errors.New("simulated failure of " + lbl(i))
			}
			if i%3 == 0 {
				return dag.CacheHit, nil
			}
			return dag.CacheMiss, nil
		})
	}

	if cs.CancelMS >= 0 {
		simrt.Go("wdag:ext-cancel", func() {
			simrt.Block0(func() { time.Sleep(time.Duration(cs.CancelMS) * time.Millisecond) }, "wdag:ext-cancel")
			simrt.Fault("external-cancel")
			cancel()
		})
	}

	walker := dag.NewWalker(g, cb, cs.FailFast)
	completions, err := walker.Walk(ctx)

	// --- what RunBuild does with the result
	errs := completions.GetErrors()
	succ, hits := completions.TargetSuccessCount()
	_ = hits
	type comp struct {
		ok      bool
		present bool
	}
	got := make([]comp, n)
	for l, cm := range simrt.MapR(completions, "wdag:read-completions") {
		got[index[l]] = comp{cm.IsSuccess, true}
	}
	pool.Shutdown()

	ev.mu.Lock()
	defer ev.mu.Unlock()
	anyFailRan := false
	for i := range fail {
		if ev.failedRun[i] {
			anyFailRan = true
		}
	}
	out.Nontrivial = ev.nStarts >= 2 && len(cs.Edges) > 0
	if anyFailRan {
		simrt.Probe("wdag-failure-ran")
	}
	if ev.maxRun == cs.Workers && cs.Workers > 1 {
		simrt.Probe("wdag-pool-saturated")
	}
	externallyCancelled := cs.CancelMS >= 0 && ctx.Err() != nil
	ffTriggered := cs.FailFast && anyFailRan

	// consistency of the completion map with what ran (always)
	for i := 0; i < n; i++ {
		if got[i].present && got[i].ok && !ev.succeeded[i] {
			s.Report(simrt.Violation{Prop: "C04", Class: "completion-mismatch", Signature: "success-without-run",
				Detail: lbl(i) + " is reported successful but its callback did not finish successfully"})
		}
		if got[i].present && !sel[i] {
			s.Report(simrt.Violation{Prop: "C04", Class: "completion-mismatch", Signature: "unselected-completed", Detail: lbl(i)})
		}
	}
	if externallyCancelled && err == nil && !ffTriggered {
		// a cancelled walk that reports no error claims that everything was resolved
		simrt.Probe("wdag-cancelled-walk-returned-nil")
	}
	// a cancelled walk that nevertheless reports no error and no failed target claims a
	// complete walk: it is held to the keep-going resolution rules as well
	cancelledButClean := externallyCancelled && err == nil && !cs.FailFast && len(errs) == 0
	if (!externallyCancelled || cancelledButClean) && !ffTriggered {
		// keep-going semantics (also fail-fast when nothing failed)
		if err != nil {
			s.Report(simrt.Violation{Prop: "C04", Class: "walk-error", Signature: "unexpected-error", Detail: fmt.Sprint("Walk returned ", err)})
		}
		blocked := make([]int, n) // 0 unknown, 1 no, 2 yes
		var isBlocked func(i int) bool
		isBlocked = func(i int) bool {
			if blocked[i] != 0 {
				return blocked[i] == 2
			}
			blocked[i] = 1
			for _, d := range deps[i] {
				if fail[d] || isBlocked(d) {
					blocked[i] = 2
					break
				}
			}
			return blocked[i] == 2
		}
		var missing, extra, unresolved []string
		for i := 0; i < n; i++ {
			if !sel[i] {
				if ev.started[i] > 0 {
					extra = append(extra, lbl(i)+"(unselected)")
				}
				continue
			}
			if isBlocked(i) {
				if ev.started[i] > 0 {
					extra = append(extra, lbl(i))
				}
				if got[i].present {
					unresolved = append(unresolved, lbl(i)+"(skipped target has a completion)")
				}
				continue
			}
			if ev.started[i] == 0 || !ev.ended[i] {
				missing = append(missing, lbl(i))
				continue
			}
			if !got[i].present {
				unresolved = append(unresolved, lbl(i)+"(ran but has no completion)")
			} else if got[i].ok == fail[i] {
				unresolved = append(unresolved, lbl(i)+"(completion status wrong)")
			}
		}
		if len(missing) > 0 {
			s.Report(simrt.Violation{Prop: "C05", Class: "not-built", Signature: "keep-going",
				Detail: "selected targets without failed dependencies were not built: " + trunc(missing)})
		}
		if len(extra) > 0 {
			s.Report(simrt.Violation{Prop: "C05", Class: "built-despite-failed-dependency", Signature: "keep-going",
				Detail: "targets executed although a transitive dependency failed (or unselected): " + trunc(extra)})
		}
		if len(unresolved) > 0 {
			s.Report(simrt.Violation{Prop: "C04", Class: "unresolved", Signature: "keep-going", Detail: trunc(unresolved)})
		}
		if ev.running != 0 {
			s.Report(simrt.Violation{Prop: "C04", Class: "returned-while-running", Signature: "keep-going",
				Detail: fmt.Sprintf("Walk returned while %d callbacks were still running", ev.running)})
		}
		wantErrs := 0
		for i := 0; i < n; i++ {
			if ev.failedRun[i] {
				wantErrs++
			}
		}
		if len(errs) != wantErrs {
			s.Report(simrt.Violation{Prop: "C05", Class: "error-summary", Signature: "keep-going",
				Detail: fmt.Sprintf("%d failed targets reported, %d failed", len(errs), wantErrs)})
		}
		wantSucc := 0
		for i := 0; i < n; i++ {
			if sel[i] && ev.succeeded[i] {
				wantSucc++
			}
		}
		if succ != wantSucc {
			s.Report(simrt.Violation{Prop: "C04", Class: "success-count", Signature: "keep-going",
				Detail: fmt.Sprintf("%d successful targets reported, %d succeeded", succ, wantSucc)})
		}
	}
	if ffTriggered && !externallyCancelled {
		if err != nil {
			s.Report(simrt.Violation{Prop: "C05", Class: "walk-error", Signature: "fail-fast", Detail: fmt.Sprint("Walk returned ", err, " after fail-fast")})
		}
		if len(errs) == 0 {
			s.Report(simrt.Violation{Prop: "C05", Class: "error-summary", Signature: "fail-fast", Detail: "a target failed but no failure is reported (exit status would be 0)"})
		}
	}
	_ = sort.Strings
}

func trunc(l []string) string {
	if len(l) > 8 {
		return strings.Join(l[:8], ", ") + fmt.Sprintf(", … (%d)", len(l))
	}
	return strings.Join(l, ", ")
}
