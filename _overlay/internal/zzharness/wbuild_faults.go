package zzharness

import (
	"fmt"
	"os"
	"path/filepath"
	"strings"
	"time"

	"google.golang.org/protobuf/proto"

	"grog/internal/hashing"
	"grog/internal/proto/gen"
	"grog/internal/zzsim/simos"
	"grog/internal/zzsim/simrt"
)

// faultState is the per-run fault configuration of W-build (mode "faults").
type faultState struct {
	kinds     map[string]bool
	crash     bool
	signal    bool
	damage    bool
	lastOps   int // fs operations of the previous build process (to place crash points)
	lastSteps int
	// per invocation
	fired       int
	crashed     bool
	sigStep     int // scheduler step at which the signal was delivered (0 = none)
	sigObserved int // step at which the signal handler task ended
	sigSimMS    int64
	damaged     bool // the harness removed cache entries: dangling references are expected
}

var ioFaultKinds = []string{"fs-error-read", "fs-error-write", "fs-error-stat", "short-write", "read-error"}

func (w *wbuild) setupFaults(m *Machine) {
	c := w.c
	fs := &faultState{kinds: map[string]bool{}}
	for _, k := range ioFaultKinds {
		if c.Choose(2, "faultkind:"+k) == 1 {
			fs.kinds[k] = true
		}
	}
	fs.crash = c.Choose(2, "faultkind:crash") == 1
	fs.signal = c.Choose(3, "faultkind:signal") == 2
	fs.damage = c.Choose(3, "faultkind:cache-damage") == 2
	if w.alwaysDamage {
		fs.damage = true // damage=1: losses between invocations in every run of this job
	}
	switch w.focus {
	case "sweep":
		fs.kinds = map[string]bool{}
		fs.crash, fs.signal, fs.damage = false, false, false
	case "signal":
		fs.signal, fs.crash = true, false
		if c.Choose(2, "signal-only") == 1 {
			fs.kinds = map[string]bool{}
			fs.damage = false
		}
	case "crash":
		fs.crash, fs.signal = true, false
	case "damage":
		// only losses between invocations: every invocation itself runs fault-free, so the
		// executed sets stay decidable (C02 after a loss: the first build repairs, the next is a no-op)
		fs.kinds = map[string]bool{}
		fs.crash, fs.signal, fs.damage = false, false, true
	}
	w.fs = fs
	simos.Plan = &simos.FaultPlan{
		Budget:   1 + c.Choose(3, "fault-budget"),
		PerMille: []int{10, 30, 100}[c.Choose(3, "fault-rate")],
		Kinds:    fs.kinds,
		Filter: func(op, path string) bool {
			return strings.HasPrefix(path, m.Root)
		},
		Touched: func(op, path, kind string) {
			fs.fired++
		},
	}
	if w.focus == "signal" {
		// slow disk in half of the interrupt runs: the process may end while a cache write is in flight
		simos.Plan.SlowCopy = []time.Duration{0, 0, 200 * time.Millisecond, 2 * time.Second}[c.Choose(4, "slow-copy")]
		simos.Plan.SlowUnder = m.Root
	}
	base := simos.Plan.PerMille
	hot := c.Choose(2, "fault-hot-restore") == 1
	simos.Plan.Rate = func(op, path, kind string) int {
		// reading blobs back (restore) and publishing them (rename) are the operations with
		// in-flight state: bias towards them in half of the runs
		if hot && (op == "open" || op == "copy" || op == "readall" || op == "rename") && strings.Contains(path, "/cache/") {
			return base * 6
		}
		return base
	}
	// count file-system operations per process (crash placement)
	simos.Trace = func(p *simrt.Proc, op, path string) {}
}

// cacheDir of a machine's workspace.
func cacheDirs(m *Machine) []string {
	var out []string
	ents, _ := os.ReadDir(m.Root)
	for _, e := range ents {
		if e.IsDir() {
			out = append(out, filepath.Join(m.Root, e.Name(), "cache"))
		}
	}
	return out
}

// auditCache checks the persistent cache offline (C07): every blob visible under a digest has
// exactly that content, every target result decodes and references only present blobs.
func (w *wbuild) auditCache(m *Machine, when string) {
	w.auditCacheWith(m, when, nil)
}

// auditCacheWith: alsoHave (optional) tells whether a blob is held by the remote store the
// local cache is a read-through / write-through mirror of.
func (w *wbuild) auditCacheWith(m *Machine, when string, alsoHave func(digest string) bool) {
	report := func(class, sig, detail string) {
		prop := "C07"
		if w.fs != nil && w.fs.sigStep != 0 && !w.fs.crashed {
			// left behind by an invocation that was interrupted (not killed): "SIGINT ... records no
			// cache entry for interrupted targets / leaves a recoverable state" is C18's clause
			prop, class = "C18", "interrupted-build-left-"+class
			detail = fmt.Sprintf("SIGINT was delivered at step %d of this invocation; %s", w.fs.sigStep, detail)
		}
		w.s.Report(simrt.Violation{Prop: prop, Class: class, Signature: sig, Detail: when + ": " + detail})
	}
	for _, cd := range cacheDirs(m) {
		casDir := filepath.Join(cd, "cas")
		have0 := map[string]bool{}
		has := func(d string) bool { return have0[d] || (alsoHave != nil && alsoHave(d)) }
		ents, _ := os.ReadDir(casDir)
		for _, e := range ents {
			if e.IsDir() || strings.HasPrefix(e.Name(), "tmp-") {
				continue
			}
			b, err := os.ReadFile(filepath.Join(casDir, e.Name()))
			if err != nil {
				continue
			}
			have0[e.Name()] = true
			if got := hashing.HashBytes(b); got != e.Name() {
				report("mismatching-blob", "cas", fmt.Sprintf("cas/%s holds %d bytes that hash to %s (a partially written or corrupt blob is visible under a content digest)", e.Name(), len(b), got))
			}
		}
		if w.fs != nil && w.fs.damaged {
			continue
		}
		tents, _ := os.ReadDir(filepath.Join(cd, "target"))
		for _, e := range tents {
			if e.IsDir() || strings.HasPrefix(e.Name(), "tmp-") {
				continue
			}
			b, err := os.ReadFile(filepath.Join(cd, "target", e.Name()))
			if err != nil {
				continue
			}
			tr := &gen.TargetResult{}
			if err := proto.Unmarshal(b, tr); err != nil {
				report("undecodable-result", "target", fmt.Sprintf("target/%s does not decode: %v", e.Name(), err))
				continue
			}
			for _, o := range tr.Outputs {
				switch k := o.Kind.(type) {
				case *gen.Output_File:
					if d := k.File.GetDigest().GetHash(); !has(d) {
						report("dangling-reference", "file", fmt.Sprintf("target/%s references file blob %s (%s) that is not in the cache", e.Name(), d, k.File.GetPath()))
					}
				case *gen.Output_Directory:
					td := k.Directory.GetTreeDigest().GetHash()
					if !has(td) {
						report("dangling-reference", "tree", fmt.Sprintf("target/%s references tree %s (%s) that is not in the cache", e.Name(), td, k.Directory.GetPath()))
						continue
					}
					tb, _ := os.ReadFile(filepath.Join(casDir, td))
					tree := &gen.Tree{}
					if err := proto.Unmarshal(tb, tree); err != nil {
						report("undecodable-result", "tree", fmt.Sprintf("tree %s does not decode: %v", td, err))
						continue
					}
					dirs := append([]*gen.Directory{tree.Root}, tree.Children...)
					for _, d := range dirs {
						if d == nil {
							continue
						}
						for _, f := range d.Files {
							if h := f.GetDigest().GetHash(); !has(h) {
								report("dangling-reference", "tree-file", fmt.Sprintf("target/%s: tree %s references file blob %s (%s) that is not in the cache", e.Name(), td, h, f.Name))
							}
						}
					}
				}
			}
		}
	}
}

// damageCache removes or truncates a drawn cache entry between two invocations.
func (w *wbuild) damageCache(m *Machine, wipeAll bool) string {
	c := w.c
	var files []string
	for _, cd := range cacheDirs(m) {
		for _, sub := range []string{"cas", "target"} {
			ents, _ := os.ReadDir(filepath.Join(cd, sub))
			for _, e := range ents {
				if !e.IsDir() {
					files = append(files, filepath.Join(cd, sub, e.Name()))
				}
			}
		}
	}
	if len(files) == 0 {
		return "nothing to damage"
	}
	w.fs.damaged = true
	k := 1 + c.Choose(3, "damage-count")
	rel := ""
	if c.Choose(3, "damage-wipe-cas") == 2 || wipeAll {
		// the blob store is lost while the target results remain (e.g. a cache GC)
		var keep []string
		for _, f := range files {
			if strings.Contains(f, "/cas/") {
				simrt.Fault("blob-missing")
				os.Remove(f)
			} else {
				keep = append(keep, f)
			}
		}
		files, k, rel = keep, 0, "all blobs "
	}
	if k > 0 && c.Choose(4, "damage-dir-files") == 3 {
		// the file blobs of one directory output are lost while its tree blob and the target
		// result survive: every file download of that restore fails
		ev := NewEval(w.U, "linux/amd64")
		var dirs []string
		for _, l := range w.U.Labels() {
			for _, o := range w.U.Specs[l].Outs {
				if o.Kind == "dir" {
					dirs = append(dirs, l)
					break
				}
			}
		}
		if len(dirs) > 0 {
			l := dirs[c.Choose(len(dirs), "damage-dir-target")]
			lost := 0
			for _, e := range ev.Clean(l) {
				if e.Kind != "file" {
					continue
				}
				d := hashing.HashBytes([]byte(e.Data))
				for _, cd := range cacheDirs(m) {
					if os.Remove(filepath.Join(cd, "cas", d)) == nil {
						simrt.Fault("blob-missing")
						lost++
					}
				}
			}
			if lost > 0 {
				rel += fmt.Sprintf("%d file blobs of the directory output of %s ", lost, l)
				k = 0
			}
		}
	}
	for i := 0; i < k && len(files) > 0; i++ {
		j := c.Choose(len(files), "damage-file")
		f := files[j]
		files = append(files[:j], files[j+1:]...)
		simrt.Fault("blob-missing")
		os.Remove(f)
		r, _ := filepath.Rel(m.Root, f)
		rel += r + " "
	}
	if c.Choose(2, "damage-fresh-checkout") == 1 || wipeAll {
		// fresh checkout over a partially collected cache: every output has to be restored
		for _, l := range w.U.Labels() {
			removeOutputs(m.WS, w.U.Specs[l])
		}
		rel += "+ outputs wiped"
	}
	return "removed " + rel
}

// Remap attributes scheduler-level findings to the property they contradict in this world:
// a hang after an interrupt was delivered is "does not exit within a bounded time" (C18);
// a hang in remote mode is "a remote error degrades ... never to a hang" (C08).
func (w *wbuild) Remap(v *simrt.Violation) {
	if v.Class != "hang" || v.Prop != "C04" {
		return
	}
	if w.fs != nil && w.fs.sigStep != 0 {
		v.Prop = "C18"
	} else if w.mode == "remote" && w.focus == "faults" {
		v.Prop = "C08"
	}
}
