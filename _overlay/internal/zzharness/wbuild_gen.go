package zzharness

import (
	"fmt"
	"path"
	"sort"
	"strconv"
	"strings"

	"grog/internal/zzsim/simrt"
)

// ---------------------------------------------------------------------------------------
// Workload generator for W-build: universes, edits, build requests. Everything is drawn
// from the run's choice stream; choice 0 is always the simplest option.
// ---------------------------------------------------------------------------------------

type genCfg struct {
	MaxTargets int
	Features   map[string]bool // swarm toggles
}

func pick(c *simrt.Choices, kind string, opts ...string) string {
	return opts[c.Choose(len(opts), kind)]
}

// chance returns true with probability num/den (0 = no is the benign choice).
func chance(c *simrt.Choices, num, den int, kind string) bool {
	return c.Choose(den, kind) >= den-num
}

func genTree(c *simrt.Choices) []TreeEnt {
	var t []TreeEnt
	n := c.Choose(6, "tree-n")
	dirs := []string{""}
	for i := 0; i < n; i++ {
		parent := dirs[c.Choose(len(dirs), "tree-parent")]
		switch c.Choose(8, "tree-kind") {
		case 0, 1, 2, 3:
			name := fmt.Sprintf("f%d.dat", i)
			if chance(c, 1, 8, "odd-name") {
				name = fmt.Sprintf("f %d (ü).dat", i)
			}
			t = append(t, TreeEnt{Rel: path.Join(parent, name), Kind: "file", Exec: chance(c, 1, 3, "exec"), Class: []int{0, 1, 1, 2}[c.Choose(4, "class")]})
		case 4, 5:
			d := path.Join(parent, fmt.Sprintf("d%d", i))
			dirs = append(dirs, d)
			t = append(t, TreeEnt{Rel: d, Kind: "dir"})
		case 6:
			t = append(t, TreeEnt{Rel: path.Join(parent, fmt.Sprintf("l%d", i)), Kind: "link", Link: pick(c, "link", "f0.dat", "../x", "nowhere")})
		case 7:
			t = append(t, TreeEnt{Rel: path.Join(parent, fmt.Sprintf("e%d.dat", i)), Kind: "file", Class: 2, Exec: chance(c, 1, 3, "exec")})
		}
	}
	return t
}

func genUniverse(c *simrt.Choices, g genCfg) *Universe {
	u := &Universe{Files: map[string]string{}, Specs: map[string]*Spec{}, Aliases: map[string]string{}, Ext: map[string]string{"tool": "1.0", "cond": "ok"}}
	allPkgs := []string{"", "a", "a/b", "lib", "a2", "a-gen", "a.x"}
	npk := 1 + c.Choose(4, "npkgs")
	pkgs := allPkgs[:1]
	for i := 1; i < npk; i++ {
		pkgs = append(pkgs, allPkgs[1+c.Choose(len(allPkgs)-1, "pkg")])
	}
	if g.Features["flatnames"] {
		pkgs = append(pkgs, "a", "a/b")
	}
	// unique
	seen := map[string]bool{}
	var up []string
	for _, p := range pkgs {
		if !seen[p] {
			seen[p] = true
			up = append(up, p)
		}
	}
	pkgs = up
	if !g.Features["rootpkg"] && len(pkgs) > 1 {
		pkgs = pkgs[1:]
	}
	// sources
	for _, p := range pkgs {
		nf := 1 + c.Choose(3, "nsrc")
		for i := 0; i < nf; i++ {
			u.Files[path.Join(p, fmt.Sprintf("s%d.txt", i))] = fmt.Sprintf("%s-s%d-%s", p, i, strings.Repeat("x", c.Choose(6, "srclen")))
		}
		if chance(c, 1, 3, "prefix-src") {
			// names that have an excludable path as a plain string prefix without lying below it
			u.Files[path.Join(p, "s1.txt.orig.txt")] = "orig:" + p
			if chance(c, 1, 2, "prefix-src2") {
				u.Files[path.Join(p, "srcx.txt")] = "srcx:" + p
			}
		}
		if chance(c, 1, 3, "subdir-src") {
			u.Files[path.Join(p, "src", "u0.txt")] = "u0:" + p
			if chance(c, 1, 2, "subdir-src2") {
				u.Files[path.Join(p, "src", "deep", "u1.txt")] = "u1:" + p
			}
		}
	}
	n := 2 + c.Choose(g.MaxTargets-1, "ntargets")
	var order []string
	for i := 0; i < n; i++ {
		p := pkgs[c.Choose(len(pkgs), "tpkg")]
		name := fmt.Sprintf("t%d", i)
		if p != "" && chance(c, 1, 6, "shorthand-name") {
			name = path.Base(p)
		}
		s := &Spec{Pkg: p, Name: name, Ver: 1, Proj: "all"}
		if g.Features["tests"] && len(order) > 0 && chance(c, 1, 5, "is-test") {
			s.Name += "_test"
		}
		if g.Features["flatnames"] && p == "a" && chance(c, 1, 2, "flatname") {
			// //a:b_X and //a/b:X flatten to the same string when separators are replaced
			var inB []string
			for _, l := range order {
				if u.Specs[l].Pkg == "a/b" {
					inB = append(inB, u.Specs[l].Name)
				}
			}
			if len(inB) > 0 {
				s.Name = "b_" + inB[c.Choose(len(inB), "flat-k")]
			}
		}
		if _, dup := u.Specs[s.Label()]; dup {
			s.Name = fmt.Sprintf("t%d", i)
		}
		// inputs
		switch c.Choose(6, "inputs-kind") {
		case 0:
			s.Inputs = []string{"s0.txt"}
		case 1:
			s.Inputs = []string{"*.txt"}
		case 2:
			s.Inputs = []string{"**/*.txt"}
		case 3:
			s.Inputs = []string{"s0.txt", "src/**/*.txt"}
		case 4:
			s.Inputs = nil
		case 5:
			s.Inputs = []string{pick(c, "excl-inputs", "*.txt", "**/*.txt")}
			s.Excludes = [][]string{{"s1.txt"}, {"src/**"}, {"s1.txt", "src/**"}}[c.Choose(3, "excl-kind")]
		}
		// dependencies on earlier targets
		if len(order) > 0 {
			nd := c.Choose(3, "ndeps")
			for k := 0; k < nd; k++ {
				d := order[c.Choose(len(order), "dep")]
				if u.Specs[d].IsTest() {
					continue
				}
				if u.Specs[d].HasTag("testonly") && !s.IsTest() {
					continue // only tests (and testonly targets) may depend on testonly targets
				}
				ref := d
				if g.Features["alias"] && chance(c, 1, 3, "via-alias") {
					al := fmt.Sprintf("//%s:al%d_%d", p, i, k)
					u.Aliases[al] = d
					ref = al
					if chance(c, 1, 4, "alias-chain") {
						al2 := fmt.Sprintf("//%s:al%d_%dx", p, i, k)
						u.Aliases[al2] = al
						ref = al2
					}
				}
				dupe := false
				for _, e := range s.Deps {
					if e == ref {
						dupe = true
					}
				}
				if !dupe {
					s.Deps = append(s.Deps, ref)
					// the same dependency declared a second time with the relative spelling
					if g.Features["alias"] && ref == d && pkgOfLabel(d) == p && chance(c, 1, 6, "dup-spelling") {
						s.Deps = append(s.Deps, ":"+nameOfLabel(d))
					}
				}
			}
		}
		// outputs
		switch c.Choose(9, "outs-kind") {
		case 0:
			s.Outs = []OutSpec{{Kind: "file", Path: "out/" + s.Name + ".out"}}
		case 1:
			s.Outs = []OutSpec{{Kind: "file", Path: s.Name + ".out"}}
		case 2:
			if g.Features["dirs"] {
				s.Outs = []OutSpec{{Kind: "dir", Path: "out/" + s.Name + "_d", Tree: genTree(c)}}
			} else {
				s.Outs = []OutSpec{{Kind: "file", Path: "out/" + s.Name + ".out"}}
			}
		case 3:
			s.Outs = []OutSpec{{Kind: "file", Path: "out/" + s.Name + ".out"}, {Kind: "file", Path: "gen/deep/" + s.Name + ".2.out"}}
		case 4:
			if g.Features["bin"] {
				s.Outs = []OutSpec{{Kind: "bin", Path: "out/" + s.Name + ".bin"}}
			} else {
				s.Outs = []OutSpec{{Kind: "file", Path: "out/" + s.Name + ".out"}}
			}
		case 7:
			s.Outs = []OutSpec{{Kind: "file", Path: "out/" + s.Name + ".a.out"}, {Kind: "file", Path: "out/" + s.Name + ".b.out"}, {Kind: "file", Path: s.Name + ".c.out"}}
		case 8:
			if g.Features["dirs"] && g.Features["bin"] {
				s.Outs = []OutSpec{{Kind: "dir", Path: "out/" + s.Name + "_d", Tree: genTree(c)}, {Kind: "bin", Path: "out/" + s.Name + ".bin"}}
			} else {
				s.Outs = []OutSpec{{Kind: "file", Path: "out/" + s.Name + ".out"}, {Kind: "file", Path: "out/" + s.Name + ".b.out"}}
			}
		case 5:
			s.Outs = nil // output-less target (file group)
		case 6:
			if g.Features["dirs"] {
				s.Outs = []OutSpec{{Kind: "file", Path: "out/" + s.Name + ".out"}, {Kind: "dir", Path: s.Name + "_tree", Tree: genTree(c)}}
			} else {
				s.Outs = []OutSpec{{Kind: "file", Path: "out/" + s.Name + ".out"}}
			}
		}
		if g.Features["testonly"] && len(s.Deps) == 0 && chance(c, 1, 4, "testonly") {
			s.Tags = []string{"testonly"}
		} else if g.Features["tags"] {
			switch c.Choose(10, "tags") {
			case 7:
				s.Tags = []string{"ci"}
			case 8:
				s.Tags = []string{"multiplatform-cache"}
			case 9:
				s.Tags = []string{"no-cache"}
			}
		}
		if g.Features["fingerprint"] && chance(c, 1, 5, "fp") {
			s.FP = []string{"tool"}
		}
		if g.Features["platforms"] && chance(c, 1, 8, "platforms") {
			s.Platforms = []string{pick(c, "platform", "linux/amd64", "darwin/arm64")}
		}
		if chance(c, 1, 5, "proj-first") {
			s.Proj = "first"
		} else if g.Features["mirror"] && chance(c, 1, 4, "proj-mirror") {
			// cp-like command: two (or three) file outputs that mirror the inputs
			s.Proj = "mirror"
			s.Inputs = []string{"*.txt"}
			s.Excludes = nil
			s.Outs = []OutSpec{{Kind: "file", Path: "out/" + s.Name + ".m0.out"}, {Kind: "file", Path: "out/" + s.Name + ".m1.out"}}
		}
		s.DurMS = []int{0, 0, 1, 5, 5}[c.Choose(5, "dur")]
		s.InPlace = chance(c, 1, 2, "in-place")
		s.BinNoChmod = chance(c, 1, 2, "bin-no-chmod")
		if g.Features["trapterm"] && chance(c, 1, 3, "trap-term") {
			s.TrapTerm = true
			if s.DurMS < 5 {
				s.DurMS = []int{5, 400, 2500}[c.Choose(3, "trap-dur")]
			}
		}
		if g.Features["checks"] && chance(c, 1, 6, "check") {
			s.Checks = []CheckSpec{{Key: "cond_" + s.Name, Expect: pick(c, "check-expect", "ready", "")}}
			s.Establish = !chance(c, 1, 5, "no-establish")
			s.CheckMS = []int{0, 0, 5, 300}[c.Choose(4, "check-ms")]
		}
		if g.Features["fail"] && chance(c, 1, 6, "fail") {
			s.Fail = pick(c, "fail-kind", "exit", "omit", "slow")
			if s.Fail == "slow" {
				s.TimeoutMS = 50
			}
			if s.Fail == "omit" && len(s.Outs) == 0 {
				s.Fail = "exit"
			}
		}
		if g.Features["timeouts"] && s.TimeoutMS == 0 && chance(c, 1, 3, "timeout") {
			s.TimeoutMS = 1000
		}
		if s.TimeoutMS > 0 && s.Fail != "slow" && s.DurMS > s.TimeoutMS/4 {
			s.DurMS = s.TimeoutMS / 4 // a slow trapping command stays well inside its timeout
		}
		u.Specs[s.Label()] = s
		order = append(order, s.Label())
	}
	if g.Features["twins"] && len(pkgs) >= 2 {
		// label-independent commands with the same relative output path in different packages:
		// their output hashes coincide whenever their inputs have the same parity
		join := &Spec{Pkg: pkgs[0], Name: "join", Ver: 1, Proj: "all", Outs: []OutSpec{{Kind: "file", Path: "out/join.out"}}}
		for i, p := range pkgs {
			if i >= 3 {
				break
			}
			tw := &Spec{Pkg: p, Name: "tw", Ver: 1, Proj: "parity", Inputs: []string{"s0.txt"}, Outs: []OutSpec{{Kind: "file", Path: "out/common.out"}}}
			u.Specs[tw.Label()] = tw
			join.Deps = append(join.Deps, tw.Label())
		}
		u.Specs[join.Label()] = join
	}
	if g.Features["platforms"] {
		// package-level default_platforms: targets inherit them, spell their own list, or opt
		// out with an explicit empty list
		for _, p := range pkgs {
			if !chance(c, 1, 3, "pkg-default-platforms") {
				continue
			}
			def := []string{pick(c, "pkg-platform", "darwin/arm64", "linux/amd64", "darwin/arm64")}
			if u.PkgPlat == nil {
				u.PkgPlat = map[string][]string{}
			}
			u.PkgPlat[p] = def
			for _, l := range u.Labels() {
				sp := u.Specs[l]
				if sp.Pkg != p || len(sp.Platforms) > 0 {
					continue
				}
				if sp.Proj == "parity" || chance(c, 1, 2, "explicit-empty-platforms") {
					sp.PlatMode = "empty"
				} else {
					sp.PlatMode, sp.Platforms = "inherit", append([]string{}, def...)
				}
			}
		}
	}
	if g.Features["nonhermetic"] {
		// sinks only: nothing (no target, no alias) refers to a non-hermetic target
		used := map[string]bool{}
		for _, sp := range u.Specs {
			for _, d := range sp.Deps {
				used[d] = true
			}
		}
		for _, t := range u.Aliases {
			used[t] = true
		}
		u.Ext["epoch"] = "1"
		for _, l := range u.Labels() {
			sp := u.Specs[l]
			if !used[l] && len(sp.Outs) > 0 && sp.Proj != "parity" && sp.Proj != "mirror" && chance(c, 1, 2, "non-hermetic") {
				sp.NonHermetic = true
			}
		}
	}
	return u
}

// pkgsOf lists the packages that have a BUILD file.
func (u *Universe) pkgsOf() []string {
	set := map[string]bool{}
	for _, s := range u.Specs {
		set[s.Pkg] = true
	}
	for a := range u.Aliases {
		set[pkgOfLabel(a)] = true
	}
	return sortedKeys(set)
}

func pkgOfLabel(l string) string {
	b := strings.TrimPrefix(l, "//")
	return b[:strings.LastIndex(b, ":")]
}

func nameOfLabel(l string) string { return l[strings.LastIndex(l, ":")+1:] }

// ---------------------------------------------------------------- edits

// Edit is one decoded edit (for the replay file).
type Edit struct {
	Op     string `json:"op"`
	Target string `json:"target,omitempty"`
	Detail string `json:"detail,omitempty"`
}

// dependsOn reports whether a (transitively) depends on b.
func (u *Universe) dependsOn(a, b string) bool {
	for _, l := range u.Topo([]string{a}) {
		if l == b && l != a {
			return true
		}
	}
	return false
}

func genEdit(c *simrt.Choices, u *Universe, g genCfg, snapshots []*Universe) (*Universe, Edit) {
	labels := u.Labels()
	files := sortedKeys(u.Files)
	kinds := []string{"modify", "append", "truncate", "move-bytes", "add-file", "remove-file", "rename-file", "command", "toggle-exclude"}
	if g.Features["mirror"] {
		kinds = append(kinds, "swap-files", "swap-files")
	}
	if g.Features["edit-outs"] {
		kinds = append(kinds, "rename-output", "add-output", "file-to-dir")
	}
	if g.Features["fingerprint"] {
		kinds = append(kinds, "fingerprint")
	}
	if g.Features["edit-deps"] {
		kinds = append(kinds, "add-dep", "remove-dep")
	}
	if g.Features["alias"] {
		kinds = append(kinds, "alias-route", "alias-retarget")
	}
	if len(snapshots) > 0 {
		kinds = append(kinds, "revert")
	}
	if g.Features["fail"] {
		kinds = append(kinds, "toggle-fail")
	}
	if g.Features["checks"] {
		kinds = append(kinds, "destroy-condition", "destroy-condition", "toggle-breaks")
	}
	if g.Features["extfail"] {
		kinds = append(kinds, "ext-fail", "ext-fail")
	}
	if g.Features["tags"] && g.Features["nocache-build"] {
		kinds = append(kinds, "toggle-nocache")
	}
	if g.Features["nonhermetic"] {
		kinds = append(kinds, "epoch-tick", "epoch-tick")
	}
	k := kinds[c.Choose(len(kinds), "edit-kind")]
	n := u.Clone()
	ed := Edit{Op: k}
	fileIdx := func() string { return files[c.Choose(len(files), "file")] }
	lab := func() *Spec { return n.Specs[labels[c.Choose(len(labels), "target")]] }
	switch k {
	case "modify":
		f := fileIdx()
		n.Files[f] = fmt.Sprintf("%s|m%d", n.Files[f], c.Choose(100, "val"))
		ed.Target = f
	case "append":
		f := fileIdx()
		n.Files[f] += "+"
		ed.Target = f
	case "truncate":
		f := fileIdx()
		if len(n.Files[f]) > 0 {
			n.Files[f] = n.Files[f][:len(n.Files[f])/2]
		}
		ed.Target = f
	case "move-bytes":
		// move the last byte(s) of one input to the start of the lexicographically next file
		// of the same directory: the concatenation of the two files stays the same
		i := c.Choose(len(files), "file")
		f := files[i]
		if i+1 < len(files) && path.Dir(files[i+1]) == path.Dir(f) && len(n.Files[f]) > 1 {
			g2 := files[i+1]
			cut := 1 + c.Choose(len(n.Files[f])-1, "cut")
			tail := n.Files[f][len(n.Files[f])-cut:]
			n.Files[f] = n.Files[f][:len(n.Files[f])-cut]
			n.Files[g2] = tail + n.Files[g2]
			ed.Target, ed.Detail = f, "-> "+g2
		} else {
			n.Files[f] += "~"
			ed.Op, ed.Target = "append", f
		}
	case "swap-files":
		// two adjacent files of one directory swap their contents (the multiset of contents,
		// and their concatenation order aside, everything a content-only digest sees is unchanged)
		i := c.Choose(len(files), "file")
		f := files[i]
		if i+1 < len(files) && path.Dir(files[i+1]) == path.Dir(f) {
			g2 := files[i+1]
			n.Files[f], n.Files[g2] = n.Files[g2], n.Files[f]
			ed.Target, ed.Detail = f, "<-> "+g2
		} else {
			n.Files[f] += "%"
			ed.Op, ed.Target = "append", f
		}
	case "add-file":
		f := fileIdx()
		nf := path.Join(path.Dir(f), fmt.Sprintf("n%d.txt", c.Choose(4, "newname")))
		if path.Dir(f) == "." {
			nf = fmt.Sprintf("n%d.txt", c.Choose(4, "newname"))
		}
		n.Files[nf] = pick(c, "newcontent", "new", "", "new2")
		ed.Target = nf
	case "remove-file":
		f := fileIdx()
		if strings.HasSuffix(f, "s0.txt") {
			n.Files[f] += "-"
			ed.Op = "append"
		} else {
			delete(n.Files, f)
		}
		ed.Target = f
	case "rename-file":
		f := fileIdx()
		if strings.HasSuffix(f, "s0.txt") {
			n.Files[f] += "="
			ed.Op = "append"
		} else {
			nf := strings.TrimSuffix(f, ".txt") + "r.txt"
			n.Files[nf] = n.Files[f]
			delete(n.Files, f)
			ed.Detail = "-> " + nf
		}
		ed.Target = f
	case "command":
		s := lab()
		s.Ver++
		ed.Target = s.Label()
	case "toggle-exclude":
		s := lab()
		if len(s.Excludes) > 0 {
			s.Excludes = nil
		} else if len(s.Inputs) > 0 && isGlob(s.Inputs[0]) {
			s.Excludes = [][]string{{"s1.txt"}, {"src/**"}}[c.Choose(2, "excl-kind")]
		} else {
			s.Ver++
			ed.Op = "command"
		}
		ed.Target = s.Label()
	case "rename-output":
		s := lab()
		if len(s.Outs) > 0 {
			i := c.Choose(len(s.Outs), "out")
			s.Outs[i].Path = strings.TrimSuffix(s.Outs[i].Path, "2") + "2"
			ed.Detail = s.Outs[i].Path
		} else {
			s.Ver++
			ed.Op = "command"
		}
		ed.Target = s.Label()
	case "add-output":
		s := lab()
		if len(s.Outs) < 3 {
			s.Outs = append(s.Outs, OutSpec{Kind: "file", Path: fmt.Sprintf("out/%s.extra%d.out", s.Name, len(s.Outs))})
		} else {
			s.Outs = s.Outs[:1]
			ed.Detail = "drop"
		}
		ed.Target = s.Label()
	case "file-to-dir":
		s := lab()
		done := false
		for i := range s.Outs {
			// what the command puts into the directory is not part of the target definition: an
			// edit back to "directory" yields the directory the command produced before
			if s.Outs[i].Kind == "file" {
				tree := []TreeEnt{{Rel: "x.dat", Kind: "file"}}
				if s.Outs[i].WasDir {
					tree = s.Outs[i].Stash // possibly empty: the command produced an empty directory
				}
				s.Outs[i].Kind, s.Outs[i].Tree, s.Outs[i].Stash, s.Outs[i].WasDir = "dir", tree, nil, false
				done = true
				break
			} else if s.Outs[i].Kind == "dir" {
				s.Outs[i].Kind, s.Outs[i].Stash, s.Outs[i].Tree, s.Outs[i].WasDir = "file", s.Outs[i].Tree, nil, true
				done = true
				break
			}
		}
		if !done {
			s.Ver++
			ed.Op = "command"
		}
		ed.Target = s.Label()
	case "fingerprint":
		// external tool version changes; BUILD files mirror it. Adversarial pair: k=ab,v=c vs k=a,v=bc
		n.Ext["tool"] = pick(c, "toolver", "1.1", "1.0", "2.0", "1.0=1")
		ed.Detail = n.Ext["tool"]
	case "add-dep":
		s := lab()
		var cands []string
		for _, l := range labels {
			if l != s.Label() && !n.dependsOn(l, s.Label()) && !n.Specs[l].IsTest() && !n.Specs[l].HasTag("testonly") && !n.Specs[l].NonHermetic {
				cands = append(cands, l)
			}
		}
		if len(cands) > 0 {
			d := cands[c.Choose(len(cands), "newdep")]
			has := false
			for _, e := range n.DepTargets(s) {
				if e == d {
					has = true
				}
			}
			if !has {
				s.Deps = append(s.Deps, d)
				ed.Detail = d
			}
		}
		ed.Target = s.Label()
	case "remove-dep":
		s := lab()
		if len(s.Deps) > 0 {
			i := c.Choose(len(s.Deps), "deldep")
			ed.Detail = s.Deps[i]
			s.Deps = append(append([]string(nil), s.Deps[:i]...), s.Deps[i+1:]...)
		}
		ed.Target = s.Label()
	case "alias-route":
		// reroute an existing direct edge through a fresh alias (the edge's meaning is unchanged)
		s := lab()
		for i, d := range s.Deps {
			if _, isAlias := n.Aliases[d]; !isAlias {
				al := fmt.Sprintf("//%s:r_%s_%d", s.Pkg, s.Name, i)
				if strings.HasPrefix(d, ":") {
					d = "//" + s.Pkg + d // the second spelling of a duplicate dependency: the alias names the target absolutely
				}
				n.Aliases[al] = d
				s.Deps[i] = al
				ed.Detail = al + " -> " + d
				break
			}
		}
		ed.Target = s.Label()
	case "alias-retarget":
		as := sortedKeys(n.Aliases)
		if len(as) > 0 {
			a := as[c.Choose(len(as), "alias")]
			// users of a must not end up depending on themselves
			var cands []string
			for _, l := range labels {
				ok := !n.Specs[l].IsTest() && !n.Specs[l].HasTag("testonly") && !n.Specs[l].NonHermetic
				for _, user := range labels {
					for _, d := range n.Specs[user].Deps {
						if d == a || n.Aliases[d] == a {
							if user == l || n.dependsOn(l, user) {
								ok = false
							}
						}
					}
				}
				if ok {
					cands = append(cands, l)
				}
			}
			if len(cands) > 0 {
				n.Aliases[a] = cands[c.Choose(len(cands), "retarget")]
				ed.Target, ed.Detail = a, n.Aliases[a]
			}
		}
	case "revert":
		n = snapshots[c.Choose(len(snapshots), "snapshot")].Clone()
		// external state is not part of the sources: keep the current one
		for k2, v := range u.Ext {
			if strings.HasPrefix(k2, "cond_") {
				n.Ext[k2] = v
			}
		}
	case "destroy-condition":
		// the external condition an output check tests is destroyed behind grog's back
		var keys []string
		for _, l := range labels {
			for _, ck := range n.Specs[l].Checks {
				keys = append(keys, ck.Key)
			}
		}
		if len(keys) > 0 {
			k := keys[c.Choose(len(keys), "cond-key")]
			if n.Ext[k] != "" && chance(c, 1, 2, "destroy-exit-status-only") {
				// the check still prints the expected text but exits non-zero
				n.Ext[k+"#rc"] = "fail"
				ed.Detail = k + " (exit status only)"
			} else {
				n.Ext[k] = ""
				ed.Detail = k
			}
		}
	case "toggle-breaks":
		var cands []*Spec
		for _, l := range labels {
			if len(n.Specs[l].Checks) > 0 {
				cands = append(cands, n.Specs[l])
			}
		}
		if len(cands) > 0 {
			sp := cands[c.Choose(len(cands), "breaks-target")]
			sp.Breaks = !sp.Breaks
			sp.Ver++
			ed.Target = sp.Label()
		}
	case "epoch-tick":
		// the undeclared environment moves on: no cache key changes
		e, _ := strconv.Atoi(n.Ext["epoch"])
		n.Ext["epoch"] = strconv.Itoa(e + 1)
		ed.Detail = n.Ext["epoch"]
	case "toggle-nocache":
		sp := lab()
		var tags []string
		had := false
		for _, t := range sp.Tags {
			if t == "no-cache" {
				had = true
			} else {
				tags = append(tags, t)
			}
		}
		if !had {
			tags = append(tags, "no-cache")
		}
		sp.Tags = tags
		ed.Target, ed.Detail = sp.Label(), fmt.Sprint("no-cache=", !had)
	case "ext-fail":
		sp := lab()
		key := "fail_" + sp.Label()
		if n.Ext[key] != "" {
			n.Ext[key] = ""
		} else {
			if sp.TimeoutMS > 0 {
				n.Ext[key] = pick(c, "extfail-kind", "slow", "slow", "exit")
			} else {
				n.Ext[key] = pick(c, "extfail-kind", "exit", "omit", "break", "slow")
			}
		}
		ed.Target, ed.Detail = sp.Label(), n.Ext[key]
	case "toggle-fail":
		s := lab()
		if s.Fail != "" {
			s.Fail = ""
			if s.TimeoutMS > 0 && s.DurMS > s.TimeoutMS/4 {
				s.DurMS = s.TimeoutMS / 4 // the repaired command finishes well inside its timeout
			}
		} else {
			s.Fail = "exit"
		}
		s.Ver++
		ed.Target = s.Label()
	}
	return n, ed
}

// ---------------------------------------------------------------- build requests

func genBuildReq(c *simrt.Choices, u *Universe, g genCfg) BuildReq {
	req := BuildReq{Kind: "build", CwdPkg: ""}
	labels := u.Labels()
	pkgs := u.pkgsOf()
	switch c.Choose(10, "pattern-kind") {
	case 0, 1:
		req.Patterns = []string{"//..."}
	case 2:
		req.Patterns = []string{labels[c.Choose(len(labels), "ptarget")]}
	case 3:
		// a package that has targets, or a parent directory of one (//a/... with only //a/b defined)
		pre := append([]string{}, pkgs...)
		for _, p := range pkgs {
			if d := path.Dir(p); d != "." && d != "" {
				pre = append(pre, d)
			}
		}
		p := pre[c.Choose(len(pre), "ppkg")]
		if p == "" {
			req.Patterns = []string{"//..."}
		} else {
			req.Patterns = []string{"//" + p + "/..."}
		}
	case 4:
		p := pkgs[c.Choose(len(pkgs), "ppkg")]
		req.Patterns = []string{"//" + p + ":all"}
	case 5:
		l := labels[c.Choose(len(labels), "ptarget")]
		req.CwdPkg = pkgOfLabel(l)
		req.Patterns = []string{":" + nameOfLabel(l)}
	case 6:
		req.Patterns = []string{labels[c.Choose(len(labels), "ptarget")], labels[c.Choose(len(labels), "ptarget")]}
	case 8:
		// exact label mixed with a wildcard
		l := labels[c.Choose(len(labels), "ptarget")]
		p := pkgs[c.Choose(len(pkgs), "ppkg")]
		wc := "//" + p + "/..."
		if p == "" {
			wc = "//:all"
		} else if c.Choose(2, "wc-all") == 1 {
			wc = "//" + p + ":all"
		}
		req.Patterns = []string{l, wc}
	case 9:
		l := labels[c.Choose(len(labels), "ptarget")]
		req.CwdPkg = pkgOfLabel(l)
		other := pkgs[c.Choose(len(pkgs), "ppkg")]
		req.Patterns = []string{":" + nameOfLabel(l), "//" + other + ":all"}
	case 7:
		as := sortedKeys(u.Aliases)
		if len(as) > 0 {
			req.Patterns = []string{as[c.Choose(len(as), "palias")]}
		} else {
			req.Patterns = []string{"//..."}
		}
	}
	if g.Features["tests"] && chance(c, 1, 5, "test-cmd") {
		req.Kind = "test"
		req.Patterns = []string{"//..."}
	}
	if g.Features["tags"] && chance(c, 1, 6, "tag-filter") {
		if chance(c, 1, 2, "exclude") {
			req.ExcludeTags = []string{"ci"}
		} else {
			req.Tags = []string{"ci"}
		}
	}
	if g.Features["platforms"] && chance(c, 1, 8, "all-platforms") {
		req.AllPlatforms = true
	}
	sort.Strings(req.Patterns)
	return req
}
