package zzharness

import (
	"encoding/json"
	"fmt"
	"os"
	"os/signal"
	"sort"
	"strconv"
	"strings"
	"syscall"
	"testing"
	"time"

	"github.com/fatih/color"

	"grog/internal/zzsim/simrt"
)

func envInt(name string, def int64) int64 {
	if v := os.Getenv(name); v != "" {
		if n, err := strconv.ParseInt(v, 10, 64); err == nil {
			return n
		}
	}
	return def
}

func splitmix(x uint64) uint64 {
	x += 0x9e3779b97f4a7c15
	z := x
	z = (z ^ (z >> 30)) * 0xbf58476d1ce4e5b9
	z = (z ^ (z >> 27)) * 0x94d049bb133111eb
	return z ^ (z >> 31)
}

// RunSeed derives the per-run seed from the check seed and the run index.
func RunSeed(base uint64, index uint64) uint64 { return splitmix(base ^ splitmix(index+1)) }

// ReplayFile is the on-disk replay contract (DESIGN.md appendix B).
type ReplayFile struct {
	Version   int               `json:"version"`
	Property  string            `json:"property"`
	World     string            `json:"world"`
	Mode      string            `json:"mode,omitempty"`
	Params    map[string]string `json:"params,omitempty"`
	Seed      uint64            `json:"seed"`
	Choices   []int             `json:"choices"`
	Kinds     []string          `json:"kinds,omitempty"`
	Decoded   any               `json:"decoded,omitempty"`
	Violation *simrt.Violation  `json:"violation,omitempty"`
	TraceHash string            `json:"trace_hash,omitempty"`
	Trace     []simrt.Step      `json:"trace,omitempty"`
	Shrunk    bool              `json:"shrunk,omitempty"`
	Note      string            `json:"note,omitempty"`
}

func worldFactory(name string, params map[string]string) func() World {
	switch name {
	case "wdag":
		maxN := 0
		if v, ok := params["max_n"]; ok {
			maxN, _ = strconv.Atoi(v)
		}
		return func() World { return &wdag{maxN: maxN} }
	}
	if f := extraWorld(name, params); f != nil {
		return f
	}
	return nil
}

func parseParams(s string) map[string]string {
	m := map[string]string{}
	for _, kv := range strings.Split(s, ",") {
		if i := strings.Index(kv, "="); i > 0 {
			m[kv[:i]] = kv[i+1:]
		}
	}
	return m
}

func matchViolation(vs []simrt.Violation, want *simrt.Violation) *simrt.Violation {
	for i := range vs {
		v := &vs[i]
		if want == nil {
			return v
		}
		if v.Prop == want.Prop && v.Class == want.Class && v.Signature == want.Signature {
			return v
		}
	}
	return nil
}

// TestSim is the worker entry point; it is driven entirely by environment variables.
func TestSim(t *testing.T) {
	mode := os.Getenv("SIM_MODE")
	if mode == "" {
		t.Skip("SIM_MODE not set")
	}
	// os/signal must be initialised outside any bubble (bubbletea / console call signal.Notify)
	sigc := make(chan os.Signal, 1)
	signal.Notify(sigc, syscall.SIGUSR2)
	signal.Stop(sigc)

	// grog prints to stdout (fmt.Print, color.Red, TeaWriter); keep the worker's output for
	// infrastructure messages only
	if devnull, err := os.OpenFile(os.DevNull, os.O_WRONLY, 0); err == nil {
		os.Stdout = devnull
		color.Output = devnull
	}
	outPath := os.Getenv("SIM_OUT")
	out, err := os.OpenFile(outPath, os.O_CREATE|os.O_WRONLY|os.O_APPEND, 0644)
	if err != nil {
		fmt.Fprintln(os.Stderr, "SIMWORKER-INFRA: cannot open SIM_OUT:", err)
		os.Exit(2)
	}
	defer out.Close()
	params := parseParams(os.Getenv("SIM_PARAMS"))

	switch mode {
	case "batch":
		world := os.Getenv("SIM_WORLD")
		mk := worldFactory(world, params)
		if mk == nil {
			fmt.Fprintln(os.Stderr, "SIMWORKER-INFRA: unknown world", world)
			os.Exit(2)
		}
		base := uint64(envInt("SIM_SEED", 1))
		from := uint64(envInt("SIM_FROM", 0))
		stride := uint64(envInt("SIM_STRIDE", 1))
		count := envInt("SIM_COUNT", 1)
		deadline := envInt("SIM_DEADLINE_UNIX", 0)
		samples := int(envInt("SIM_SAMPLES", 2))
		opt := Options{World: world, Mode: os.Getenv("SIM_WMODE"), Params: params}
		for k := int64(0); k < count; k++ {
			if deadline > 0 && time.Now().Unix() >= deadline {
				break
			}
			idx := from + uint64(k)*stride
			seed := RunSeed(base, idx)
			writeJSONLine(out, map[string]any{"begin": seed, "index": idx})
			c := simrt.NewChoices(seed)
			res := RunOne(t, mk, c, opt)
			res.Seed = seed
			if len(res.Violations) > 0 {
				res.Choices = c.Rec
			} else if int(k) >= samples {
				res.Decoded = nil
			}
			writeJSONLine(out, res)
		}
		writeJSONLine(out, map[string]any{"done": true})
	case "sweep":
		// crash sweep: for successive seeds, learn the number of file-system operations of each
		// build invocation of a fault-free history, then replay the same history once per
		// operation index with the invocation killed exactly there.
		world := os.Getenv("SIM_WORLD")
		base := uint64(envInt("SIM_SEED", 1))
		from := uint64(envInt("SIM_FROM", 0))
		stride := uint64(envInt("SIM_STRIDE", 1))
		deadline := envInt("SIM_DEADLINE_UNIX", 0)
		maxSeeds := envInt("SIM_COUNT", 1000000)
		for k := int64(0); k < maxSeeds; k++ {
			if deadline > 0 && time.Now().Unix() >= deadline {
				break
			}
			seed := RunSeed(base, from+uint64(k)*stride)
			p0 := map[string]string{}
			for kk, v := range params {
				p0[kk] = v
			}
			p0["mode"], p0["focus"] = "faults", "sweep"
			writeJSONLine(out, map[string]any{"begin": seed, "index": k})
			probe := RunOne(t, worldFactory(world, p0), simrt.NewChoices(seed), Options{World: world, Params: p0})
			probe.Seed = seed
			probe.Sweep = "probe"
			if len(probe.Violations) > 0 {
				probe.Choices = nil
			}
			writeJSONLine(out, probe)
			// sweep at most two invocations of this history (the longest ones)
			type iv struct{ inv, ops int }
			var ivs []iv
			for i, n := range probe.OpsPerInv {
				ivs = append(ivs, iv{i + 1, n})
			}
			sort.Slice(ivs, func(a, b int) bool { return ivs[a].ops > ivs[b].ops })
			if len(ivs) > 2 {
				ivs = ivs[:2]
			}
			for _, x := range ivs {
				for op := 1; op <= x.ops; op++ {
					if deadline > 0 && time.Now().Unix() >= deadline+120 {
						break
					}
					p1 := map[string]string{}
					for kk, v := range p0 {
						p1[kk] = v
					}
					p1["sweep_inv"], p1["sweep_op"] = strconv.Itoa(x.inv), strconv.Itoa(op)
					writeJSONLine(out, map[string]any{"begin": seed, "index": k, "sweep": fmt.Sprintf("%d:%d", x.inv, op)})
					c := simrt.NewChoices(seed)
					res := RunOne(t, worldFactory(world, p1), c, Options{World: world, Params: p1})
					res.Seed = seed
					res.Sweep = fmt.Sprintf("inv=%d,op=%d/%d", x.inv, op, x.ops)
					res.Decoded = nil
					if len(res.Violations) > 0 {
						res.Choices = c.Rec
						res.Decoded = map[string]any{"sweep_inv": x.inv, "sweep_op": op}
					}
					writeJSONLine(out, res)
				}
			}
		}
		writeJSONLine(out, map[string]any{"done": true})
	case "one":
		world := os.Getenv("SIM_WORLD")
		mk := worldFactory(world, params)
		seed, _ := strconv.ParseUint(os.Getenv("SIM_RUNSEED"), 10, 64)
		c := simrt.NewChoices(seed)
		res := RunOne(t, mk, c, Options{World: world, Mode: os.Getenv("SIM_WMODE"), Params: params, KeepTrace: os.Getenv("SIM_TRACE") != ""})
		res.Seed = seed
		res.Choices = c.Rec
		writeJSONLine(out, res)
	case "replay", "shrink":
		data, err := os.ReadFile(os.Getenv("SIM_REPLAY"))
		if err != nil {
			fmt.Fprintln(os.Stderr, "SIMWORKER-INFRA: cannot read replay:", err)
			os.Exit(2)
		}
		var rf ReplayFile
		if err := json.Unmarshal(data, &rf); err != nil {
			fmt.Fprintln(os.Stderr, "SIMWORKER-INFRA: bad replay file:", err)
			os.Exit(2)
		}
		if rf.Params == nil {
			rf.Params = params
		}
		mk := worldFactory(rf.World, rf.Params)
		if mk == nil {
			fmt.Fprintln(os.Stderr, "SIMWORKER-INFRA: unknown world", rf.World)
			os.Exit(2)
		}
		opt := Options{World: rf.World, Mode: rf.Mode, Params: rf.Params, KeepTrace: true}
		run := func(vec []int, keep bool) RunResult {
			o := opt
			o.KeepTrace = keep
			c := simrt.NewReplay(vec)
			res := RunOne(t, mk, c, o)
			res.Choices = c.Rec
			return res
		}
		if mode == "replay" {
			res := run(rf.Choices, true)
			res.Seed = rf.Seed
			writeJSONLine(out, res)
			return
		}
		shrunk := shrink(rf, run)
		writeJSONLine(out, shrunk)
	default:
		fmt.Fprintln(os.Stderr, "SIMWORKER-INFRA: unknown SIM_MODE", mode)
		os.Exit(2)
	}
}

// shrink minimises the choice vector by delta debugging while the same violation
// (property, class, signature) persists.
func shrink(rf ReplayFile, run func([]int, bool) RunResult) ReplayFile {
	want := rf.Violation
	budget := 400
	deadline := time.Now().Add(time.Duration(envInt("SIM_SHRINK_S", 120)) * time.Second)
	tests := 0
	fails := func(vec []int) bool {
		if tests >= budget || time.Now().After(deadline) {
			return false
		}
		tests++
		res := run(vec, false)
		return matchViolation(res.Violations, want) != nil
	}
	best := append([]int(nil), rf.Choices...)
	if !fails(best) {
		rf.Note = "shrink: original vector did not reproduce in the shrinking process"
		return rf
	}
	// 1. shortest failing prefix (missing entries read as 0)
	lo, hi := 0, len(best)
	for lo < hi {
		mid := (lo + hi) / 2
		if fails(best[:mid]) {
			hi = mid
		} else {
			lo = mid + 1
		}
	}
	if hi < len(best) && fails(best[:hi]) {
		best = best[:hi]
	}
	// 2. zero / delete chunks
	for size := len(best) / 2; size >= 1; size /= 2 {
		for start := 0; start+size <= len(best); {
			allZero := true
			for _, v := range best[start : start+size] {
				if v != 0 {
					allZero = false
				}
			}
			if !allZero {
				cand := append([]int(nil), best...)
				for i := start; i < start+size; i++ {
					cand[i] = 0
				}
				if fails(cand) {
					best = cand
					start += size
					continue
				}
			}
			if size <= 8 {
				cand := append(append([]int(nil), best[:start]...), best[start+size:]...)
				if fails(cand) {
					best = cand
					continue
				}
			}
			start += size
		}
	}
	// 3. lower single values
	for i := range best {
		for best[i] > 0 {
			cand := append([]int(nil), best...)
			cand[i] = best[i] / 2
			if !fails(cand) {
				cand[i] = best[i] - 1
				if !fails(cand) {
					break
				}
			}
			best = cand
		}
	}
	// trailing zeros are implicit
	for len(best) > 0 && best[len(best)-1] == 0 {
		best = best[:len(best)-1]
	}
	final := run(best, true)
	v := matchViolation(final.Violations, want)
	if v == nil {
		rf.Note = "shrink: minimised vector stopped reproducing; keeping original"
		return rf
	}
	rf.Choices = best
	rf.Kinds = nil
	for i := range best {
		if i < len(final.Choices) {
			rf.Kinds = append(rf.Kinds, final.Choices[i].Kind)
		}
	}
	rf.Decoded = final.Decoded
	rf.Violation = v
	rf.TraceHash = final.TraceHash
	rf.Trace = final.Trace
	if len(rf.Trace) > 400 {
		rf.Trace = rf.Trace[len(rf.Trace)-400:]
	}
	rf.Shrunk = true
	rf.Note = fmt.Sprintf("shrunk in %d replays", tests)
	return rf
}
