package zzharness

import (
	"context"
	"errors"
	"fmt"
	"os"
	"path/filepath"
	"strconv"
	"strings"
	"sync"
	"syscall"
	"time"

	"go.uber.org/zap"
	"go.uber.org/zap/zapcore"

	"grog/internal/config"
	"grog/internal/console"
	"grog/internal/locking"
	"grog/internal/zzsim/simos"
	"grog/internal/zzsim/simrt"
)

// W-lock: 2-3 simulated grog processes contend through the real WorkspaceLocker on one lock
// file; every file-system step and liveness probe of the locker is a sim point, holders and
// contenders may crash between any two steps, stale lock files may pre-exist.

type lockProc struct {
	Name      string `json:"name"`
	SectionMS int    `json:"section_ms"`
	Ending    string `json:"ending"` // unlock | exit-without-unlock
	CrashAtOp int    `json:"crash_at_op,omitempty"`
	StartMS   int    `json:"start_ms"`
	// CancelMS > 0: the process is interrupted (context cancelled) that long after its start
	CancelMS int `json:"cancel_ms,omitempty"`
}

type lockCase struct {
	Pre   string     `json:"preexisting"` // none | dead-pid | empty | garbage | foreign-live-then-dies
	Procs []lockProc `json:"procs"`
}

type wlock struct{}

func (w *wlock) Name() string { return "wlock" }

func init() {
	worldRegistry["wlock"] = func(params map[string]string) func() World {
		return func() World { return &wlock{} }
	}
}

func (w *wlock) Drive(s *simrt.Sched, out *RunResult) {
	c := s.C
	base := scratchBase()
	os.MkdirAll(base, 0755)
	defer os.RemoveAll(base)
	simos.Reset()
	simos.ResetTemp()
	ws := filepath.Join(base, "ws")
	root := filepath.Join(base, "root")
	os.MkdirAll(ws, 0755)
	config.Global = config.WorkspaceConfig{Root: root, WorkspaceRoot: ws, DisableNonDeterministicLogging: true}
	lockDir := config.Global.GetWorkspaceRootDir()
	os.MkdirAll(lockDir, 0755)
	lockFile := filepath.Join(lockDir, "lockfile")

	cs := &lockCase{}
	cs.Pre = pick(c, "preexisting", "none", "none", "dead-pid", "empty", "garbage", "foreign-live-then-dies")
	n := 2 + c.Choose(2, "nprocs")
	crashers := 0
	for i := 0; i < n; i++ {
		p := lockProc{Name: fmt.Sprintf("p%d", i), SectionMS: []int{0, 0, 5, 1500}[c.Choose(4, "section")], Ending: "unlock", StartMS: []int{0, 0, 1, 900}[c.Choose(4, "start")]}
		if c.Choose(4, "ending") == 3 {
			p.Ending = "exit-without-unlock"
		}
		if crashers < 2 && c.Choose(3, "crash") == 2 {
			p.CrashAtOp = 1 + c.Choose(8, "crash-op")
			crashers++
		}
		if p.CrashAtOp == 0 && c.Choose(5, "cancel") == 4 {
			p.CancelMS = []int{1, 300, 1200}[c.Choose(3, "cancel-ms")]
		}
		cs.Procs = append(cs.Procs, p)
	}
	out.Decoded = cs
	out.Shape = hashStr(fmt.Sprintf("%+v", *cs))
	switch cs.Pre {
	case "dead-pid":
		os.WriteFile(lockFile, []byte("4242"), 0644)
		simos.SetForeignLive(4242, false)
	case "empty":
		os.WriteFile(lockFile, nil, 0644)
	case "garbage":
		os.WriteFile(lockFile, []byte("not-a-pid\n"), 0644)
	case "foreign-live-then-dies":
		os.WriteFile(lockFile, []byte("777"), 0644)
		simos.SetForeignLive(777, true)
		simrt.Go("wlock:foreign", func() {
			simrt.Block0(func() { time.Sleep(2500 * time.Millisecond) }, "wlock:foreign")
			simos.SetForeignLive(777, false)
		})
	}
	// in a quarter of the runs the PID write of one acquisition hits a full disk (short write)
	if c.Choose(4, "pid-write-fault") == 3 {
		simos.Plan = &simos.FaultPlan{Budget: 1, PerMille: 1000, Kinds: map[string]bool{"short-write": true},
			Filter: func(op, path string) bool { return op == "write" && path == lockFile }}
		defer func() { simos.Plan = nil }()
	}
	logger := console.NewFromSugared(zap.NewNop().Sugar(), zapcore.ErrorLevel)

	// classify every removal of the lock file by what is being removed (observed through the
	// simos trace hook, before the operation is performed)
	var mu sync.Mutex
	acquired := map[string]bool{}
	creator := "" // process that created the current lock file ("" = pre-existing / none)
	badRemovals := []string{}
	pidOwner := func(content string) string {
		for name, p := range map[string]*simrt.Proc{} {
			_ = name
			_ = p
		}
		return ""
	}
	_ = pidOwner
	var byName map[string]*simrt.Proc
	decision := map[string]string{} // per process: outcome of its last look at the lock file
	ownCreate := map[string]bool{}  // per process: its current attempt created the file itself
	simos.ProbeHook = func(by *simrt.Proc, pid int, alive bool) {
		if by == nil {
			return
		}
		mu.Lock()
		defer mu.Unlock()
		if alive {
			decision[by.Name] = "live"
		} else {
			decision[by.Name] = "stale"
		}
	}
	defer func() { simos.ProbeHook = nil }()
	simos.Trace = func(p *simrt.Proc, op, path string) {
		if path != lockFile {
			return
		}
		mu.Lock()
		defer mu.Unlock()
		switch op {
		case "open":
			delete(decision, p.Name) // a new acquisition attempt
			delete(ownCreate, p.Name)
			if _, err := os.Lstat(lockFile); err != nil {
				creator = p.Name // O_CREATE|O_EXCL is about to succeed
				ownCreate[p.Name] = true
			}
		case "readfile":
			// what the reader is about to see: no file / no valid pid means "stale" without a probe
			seen := strings.TrimSpace(readFileStr(lockFile))
			if _, err := strconv.Atoi(seen); err != nil {
				decision[p.Name] = "stale"
			} else {
				delete(decision, p.Name) // decided by the liveness probe that follows
			}
		case "remove":
			content := strings.TrimSpace(readFileStr(lockFile))
			owner := ""
			for name, q := range byName {
				if fmt.Sprint(q.Pid) == content {
					owner = name
				}
			}
			// who removes, and from where: a process that acquired earlier (its own release) or one
			// that never held the lock (a contender's stale-lock handling, an error path ...)
			role := "by-contender"
			if acquired[p.Name] {
				role = "by-former-holder"
			}
			// ... and on what basis: right after this process itself found the lock stale (the
			// locker's recovery protocol), as its own release, or without either (e.g. a
			// clean-up on an error path that removes whatever is there)
			basis := "release"
			if role == "by-contender" {
				basis = "without-a-stale-decision"
				if decision[p.Name] == "stale" {
					basis = "after-stale-decision"
				} else if ownCreate[p.Name] {
					// the error path of an acquisition whose own exclusive create succeeded (the PID
					// write failed): it removes "its" file, which a contender may have replaced
					basis = "cleanup-of-own-create"
				}
			}
			where := "/" + role + "/" + basis
			switch {
			case owner != "" && owner != p.Name && !byName[owner].Dead():
				badRemovals = append(badRemovals, "removed-lock-of-live-holder"+where)
			case owner == "" && creator != "" && creator != p.Name && byName[creator] != nil && !byName[creator].Dead() && (content == "" || strings.HasPrefix(content, "<")):
				badRemovals = append(badRemovals, "removed-file-of-live-creator-before-pid-was-written"+where)
			}
			creator = ""
		}
	}
	interrupted := map[string]bool{}
	holders := map[string]bool{}
	maxHolders := 0
	var procs []*simrt.Proc
	byName = map[string]*simrt.Proc{}
	enter := func(name string) {
		mu.Lock()
		defer mu.Unlock()
		holders[name] = true
		acquired[name] = true
		live := []string{}
		for h := range holders {
			if p := byName[h]; p != nil && !p.Dead() {
				live = append(live, h)
			}
		}
		if len(live) > maxHolders {
			maxHolders = len(live)
		}
		if len(live) > 1 {
			sig := "mutual-exclusion"
			if n := len(badRemovals); n > 0 {
				sig = badRemovals[n-1]
			}
			s.Report(simrt.Violation{Prop: "C10", Class: "two-holders", Signature: sig,
				Detail: fmt.Sprintf("processes %v are past lock acquisition at the same time (lock file content: %q)", live, readFileStr(lockFile))})
		}
	}
	leave := func(name string) {
		mu.Lock()
		delete(holders, name)
		mu.Unlock()
	}
	for _, lp := range cs.Procs {
		lp := lp
		p := s.StartProc(lp.Name, func() {
			if lp.CrashAtOp > 0 {
				simos.PD(simrt.CurProc()).CrashAtOp = lp.CrashAtOp
			}
			if lp.StartMS > 0 {
				simrt.Block0(func() { time.Sleep(time.Duration(lp.StartMS) * time.Millisecond) }, "wlock:start")
			}
			ctx, cancel := context.WithCancel(console.WithLogger(context.Background(), logger))
			defer cancel()
			if lp.CancelMS > 0 {
				simrt.Go("wlock:interrupt", func() {
					sl := simrt.NewSelect("wlock:interrupt")
					simrt.SelRecv(sl, ctx.Done())
					simrt.SelRecv(sl, time.After(time.Duration(lp.CancelMS)*time.Millisecond))
					if sl.Wait() == 1 {
						simrt.Fault("interrupt-waiter")
						cancel()
					}
				})
			}
			locker := locking.NewWorkspaceLocker()
			if err := locker.Lock(ctx); err != nil {
				if ctx.Err() != nil {
					mu.Lock()
					interrupted[lp.Name] = true
					mu.Unlock()
					return // interrupted while waiting: gives up without the lock
				}
				if errors.Is(err, syscall.ENOSPC) {
					mu.Lock()
					interrupted[lp.Name] = true // the injected write fault: this build gives up without the lock
					mu.Unlock()
					return
				}
				s.Report(simrt.Violation{Prop: "C10", Class: "lock-error", Signature: "error", Detail: lp.Name + ": Lock returned " + err.Error()})
				return
			}
			enter(lp.Name)
			if lp.SectionMS > 0 {
				simrt.Block0(func() { time.Sleep(time.Duration(lp.SectionMS) * time.Millisecond) }, "wlock:section")
			} else {
				simrt.Yield("wlock:section")
			}
			// a stat of the own lock file inside the section: one more fs step (crash point)
			simos.Stat(lockFile, "wlock:section-stat")
			leave(lp.Name)
			if lp.Ending == "unlock" {
				if err := locker.Unlock(); err != nil {
					simrt.Probe("unlock-error")
				}
			} else {
				simrt.Exit(1)
			}
		})
		mu.Lock()
		byName[lp.Name] = p
		mu.Unlock()
		procs = append(procs, p)
	}
	for _, p := range procs {
		s.WaitProc(p)
	}
	// liveness is decided by the scheduler (hang / budget); here: every process that was not
	// crashed must have acquired the lock at some point
	for i, lp := range cs.Procs {
		if procs[i].Cause != "crash" && !acquired[lp.Name] && !interrupted[lp.Name] && !s.Aborted() {
			s.Report(simrt.Violation{Prop: "C10", Class: "never-acquired", Signature: "liveness", Detail: lp.Name + " ended (" + procs[i].Cause + ") without ever acquiring the lock"})
		}
	}
	out.Nontrivial = len(cs.Procs) >= 2
	if maxHolders > 0 {
		simrt.Probe("wlock-acquired")
	}
}

func readFileStr(p string) string {
	b, err := os.ReadFile(p)
	if err != nil {
		return "<" + strings.TrimPrefix(err.Error(), "open ") + ">"
	}
	return string(b)
}
