// Package zzharness holds the simulation worlds, workload generators and oracles.
// It lives inside module grog (scratch copy only) because it imports grog/internal/...
package zzharness

import (
	"encoding/json"
	"fmt"
	"hash/fnv"
	"os"
	"runtime/debug"
	"strings"
	"testing"
	"testing/synctest"
	"time"

	"grog/internal/zzsim/simrt"
)

// World is one simulated system + workload + oracle.
type World interface {
	Name() string
	// Drive runs as task "0" of the scheduler. It generates the workload from s.C, runs the
	// system, checks oracles (s.Report) and returns a decoded description of the case.
	Drive(s *simrt.Sched, out *RunResult)
}

// RunResult is what one simulated run produced.
type RunResult struct {
	World      string            `json:"world"`
	Seed       uint64            `json:"seed"`
	Mode       string            `json:"mode,omitempty"`
	Violations []simrt.Violation `json:"violations,omitempty"`
	Steps      int               `json:"steps"`
	Switches   int               `json:"switches"`
	SimMS      int64             `json:"sim_ms"`
	WallUS     int64             `json:"wall_us"`
	Faults     map[string]int    `json:"faults,omitempty"`
	Probes     map[string]int    `json:"probes,omitempty"`
	Shape      string            `json:"shape"`
	TraceHash  string            `json:"trace_hash"`
	Nontrivial bool              `json:"nontrivial"`
	NChoices   int               `json:"nchoices"`
	Choices    []simrt.Choice    `json:"choices,omitempty"`
	Decoded    any               `json:"decoded,omitempty"`
	Trace      []simrt.Step      `json:"trace,omitempty"`
	StateHash  string            `json:"state_hash,omitempty"`
	Strategy   int               `json:"strategy"`
	OpsPerInv  []int             `json:"ops_per_inv,omitempty"`
	Sweep      string            `json:"sweep,omitempty"`
}

// Options passed from the controller.
type Options struct {
	World     string
	Mode      string // world-specific variant
	KeepTrace bool
	Params    map[string]string
}

func hashStr(parts ...string) string {
	h := fnv.New64a()
	for _, p := range parts {
		h.Write([]byte(p))
		h.Write([]byte{0})
	}
	return fmt.Sprintf("%016x", h.Sum64())
}

// RunOne executes one run of world w under choice stream c inside a fresh bubble.
func RunOne(t *testing.T, mk func() World, c *simrt.Choices, opt Options) (res RunResult) {
	start := time.Now()
	w := mk()
	res.World = w.Name()
	res.Mode = opt.Mode
	func() {
		defer func() {
			if r := recover(); r != nil {
				msg := fmt.Sprint(r)
				if strings.Contains(msg, "deadlock:") && strings.Contains(msg, "blocked goroutines remain") {
					return // zombies of killed processes; expected
				}
				if strings.Contains(msg, "SIMRT-INFRA") {
					res.Violations = append(res.Violations, simrt.Violation{Infra: true, Class: "infra", Signature: msg, Detail: string(debug.Stack())})
					return
				}
				panic(r)
			}
		}()
		synctest.Test(t, func(t *testing.T) {
			s := simrt.New(c, simrt.Config{KeepTrace: opt.KeepTrace})
			s.InitStrategy()
			res.Strategy = s.Strategy*10 + s.C.SwitchPermille/100
			s.Run(func() { w.Drive(s, &res) })
			res.Violations = append(res.Violations, s.Violations...)
			res.Steps = s.Steps()
			res.Switches = s.Switches
			res.SimMS = s.SimElapsed().Milliseconds()
			res.Faults = s.Faults
			res.Probes = s.Probes
			res.TraceHash = s.TraceHash()
			res.Trace = s.Trace
		})
	}()
	if pw, ok := w.(interface{ Post(*RunResult) }); ok {
		pw.Post(&res)
	}
	if rw, ok := w.(interface{ Remap(*simrt.Violation) }); ok {
		for i := range res.Violations {
			rw.Remap(&res.Violations[i])
		}
	}
	for i := range res.Violations {
		v := &res.Violations[i]
		// a hang inside lock acquisition is a C10 matter (a waiter must proceed once the holder
		// releases or dies; a lock left by a dead process never blocks)
		if v.Class == "hang" && (res.World == "wlock" || strings.Contains(v.Signature, "locking/workspace_locker.go")) {
			v.Prop = "C10"
		}
	}
	res.NChoices = c.Len()
	res.WallUS = time.Since(start).Microseconds()
	return res
}

func writeJSONLine(f *os.File, v any) {
	b, err := json.Marshal(v)
	if err != nil {
		b, _ = json.Marshal(map[string]string{"error": err.Error()})
	}
	f.Write(append(b, '\n'))
}
