package zzharness

import (
	"encoding/json"
	"fmt"
	"os"
	"path/filepath"
	"sort"
	"strings"
	"sync"
	"time"

	"grog/internal/cmd/cmds"
	"grog/internal/config"
	"grog/internal/zzsim/simexec"
	"grog/internal/zzsim/simos"
	"grog/internal/zzsim/simrt"
)

// ---------------------------------------------------------------------------------------
// W-build: one or two machines (workspace + GROG_ROOT), histories of edits and real
// command invocations (cmds.BuildCmd.Run etc.) executed as simulated processes.
// ---------------------------------------------------------------------------------------

// Machine is a checkout plus a local cache root.
type Machine struct {
	Name string
	WS   string
	Root string
	// written source files (workspace-relative) so that removed sources can be deleted
	written map[string]bool
}

// ExecEvent is one command execution observed by the simulated shell.
type ExecEvent struct {
	Inv       int    `json:"inv"`
	Label     string `json:"label"`
	Kind      string `json:"kind"` // cmd | check | bin
	Start     int    `json:"start"`
	End       int    `json:"end"`
	Exit      int    `json:"exit"`
	Killed    bool   `json:"killed,omitempty"`
	DepDigest string `json:"dep_digest,omitempty"`
	WrongDeps string `json:"wrong_deps,omitempty"`
	Machine   string `json:"machine,omitempty"`
	StartMS   int64  `json:"start_ms"`
	EndMS     int64  `json:"end_ms"`
	Note      string `json:"note,omitempty"`

	wrongListings map[string]string
}

// InvOpts are the per-invocation settings (grog.toml / flags).
type InvOpts struct {
	Workers     int    `json:"workers"`
	LoadOutputs string `json:"load_outputs"`
	Hash        string `json:"hash"`
	EnableCache bool   `json:"enable_cache"`
	FailFast    bool   `json:"fail_fast"`
	Platform    string `json:"platform"`
	Remote      bool   `json:"remote,omitempty"`
}

// InvResult is what the harness observes of one invocation.
type InvResult struct {
	N        int
	ExitCode int
	Cause    string
	Log      string
	Events   []ExecEvent
	Steps    int
	SimMS    int64
	Ops      int
	EndSimMS int64
	// Orphans: target commands that were still running, not killed, when the process ended
	Orphans []string
}

type wbuild struct {
	s    *simrt.Sched
	c    *simrt.Choices
	base string
	g    genCfg
	mode string

	mu           sync.Mutex
	U            *Universe // what is on disk of the active machine
	M            *Machine
	inv          int
	events       []ExecEvent
	running      int
	maxRun       int
	ranBin       []string
	curOpts      InvOpts
	dirInWay     map[string]bool
	diskBefore   map[string]Listing
	toggled      map[string]bool
	force        []string
	long         bool
	alwaysDamage bool
	// contend=1: a second `grog build` is started in the same workspace while an invocation runs
	contend    bool
	holder     *simrt.Proc          // the process whose lock file is in place (tracked at the lock file, contend=1 only)
	gaveUpLock map[*simrt.Proc]bool // processes that removed their own lock file: no target activity may follow
	liveProc   map[*simexec.Invocation]*simrt.Proc
	contended  bool // a contender ran during the last invocation
	// lockTainted: a contender removed a live holder's lock file, or a fault hit the lock file:
	// overlaps from here on are consequences of the recorded locker windows (W-lock decides those)
	lockTainted bool
	live        map[*simexec.Invocation]string
	// remote mode: epoch of the result the remote namespace holds per key (non-hermetic targets)
	remoteNH map[string]string
	// strict keys whose result the last checked build recorded (executed successfully, cacheable)
	recordedNow map[string]bool
	remoteLossy bool
	fs          *faultState
	focus       string
	load        string
	// crash sweep: kill invocation number sweepInv at its sweepOp-th file-system operation
	sweepInv, sweepOp int
	opsPerInv         []int
	lastMut           func(m2 *Machine) (string, OutSpec, string)
	lastMutKind       string
}

var runCounter int

func scratchBase() string {
	b := os.Getenv("SIM_SCRATCH")
	if b == "" {
		b = os.TempDir()
	}
	runCounter++
	return filepath.Join(b, "runs", fmt.Sprintf("p%d-%d", os.Getpid(), runCounter))
}

func (w *wbuild) newMachine(name string) *Machine {
	m := &Machine{Name: name, WS: filepath.Join(w.base, name, "ws"), Root: filepath.Join(w.base, name, "root"), written: map[string]bool{}}
	os.MkdirAll(m.WS, 0755)
	os.MkdirAll(m.Root, 0755)
	os.WriteFile(filepath.Join(m.WS, "grog.toml"), []byte("# simulated workspace\n"), 0644)
	return m
}

// ---------------------------------------------------------------- BUILD files

type targetDTO struct {
	Name          string            `json:"name"`
	Command       string            `json:"command,omitempty"`
	Dependencies  []string          `json:"dependencies,omitempty"`
	Inputs        []string          `json:"inputs,omitempty"`
	ExcludeInputs []string          `json:"exclude_inputs,omitempty"`
	Outputs       []string          `json:"outputs,omitempty"`
	BinOutput     string            `json:"bin_output,omitempty"`
	OutputChecks  []map[string]any  `json:"output_checks,omitempty"`
	Tags          []string          `json:"tags,omitempty"`
	Fingerprint   map[string]string `json:"fingerprint,omitempty"`
	Platforms     *[]string         `json:"platforms,omitempty"`
	Timeout       string            `json:"timeout,omitempty"`
}

type aliasDTO struct {
	Name   string `json:"name"`
	Actual string `json:"actual"`
}

type packageDTO struct {
	Targets          []targetDTO `json:"targets"`
	Aliases          []aliasDTO  `json:"aliases,omitempty"`
	DefaultPlatforms []string    `json:"default_platforms,omitempty"`
}

func renderBuildFiles(u *Universe) map[string]string {
	out := map[string]string{}
	for _, p := range u.pkgsOf() {
		var pk packageDTO
		pk.DefaultPlatforms = u.PkgPlat[p]
		for _, l := range u.Labels() {
			s := u.Specs[l]
			if s.Pkg != p {
				continue
			}
			t := targetDTO{Name: s.Name, Dependencies: s.Deps, Inputs: s.Inputs, ExcludeInputs: s.Excludes, Tags: s.Tags}
			switch {
			case s.PlatMode == "empty":
				t.Platforms = &[]string{} // "platforms": [] overrides the package default
			case s.PlatMode == "inherit":
			case len(s.Platforms) > 0:
				pl := s.Platforms
				t.Platforms = &pl
			}
			if !s.NoCmd {
				t.Command = fmt.Sprintf(": SIMCMD %s v%d", s.Label(), s.Ver)
			}
			for _, o := range s.Outs {
				if o.Kind == "bin" {
					t.BinOutput = o.Path
				} else {
					t.Outputs = append(t.Outputs, o.Decl())
				}
			}
			if len(s.FP) > 0 {
				t.Fingerprint = map[string]string{}
				for _, k := range s.FP {
					t.Fingerprint[k] = u.Ext[k]
				}
			}
			for _, c := range s.Checks {
				m := map[string]any{"command": fmt.Sprintf(": SIMCHECK %s %s", s.Label(), c.Key)}
				if c.Expect != "" {
					m["expected_output"] = c.Expect
				}
				t.OutputChecks = append(t.OutputChecks, m)
			}
			if s.TimeoutMS > 0 {
				t.Timeout = fmt.Sprintf("%dms", s.TimeoutMS)
			}
			pk.Targets = append(pk.Targets, t)
		}
		for _, a := range sortedKeys(u.Aliases) {
			if pkgOfLabel(a) == p {
				pk.Aliases = append(pk.Aliases, aliasDTO{Name: nameOfLabel(a), Actual: u.Aliases[a]})
			}
		}
		b, _ := json.MarshalIndent(pk, "", " ")
		out[filepath.Join(p, "BUILD.json")] = string(b)
	}
	return out
}

// syncWorkspace makes the checkout of m equal to u's sources (never touches outputs).
func (w *wbuild) syncWorkspace(m *Machine, u *Universe) {
	want := map[string]string{}
	for f, c := range u.Files {
		want[f] = c
	}
	for f, c := range renderBuildFiles(u) {
		want[f] = c
	}
	for f := range m.written {
		if _, ok := want[f]; !ok {
			os.Remove(filepath.Join(m.WS, f))
			delete(m.written, f)
		}
	}
	for _, f := range sortedKeys(want) {
		p := filepath.Join(m.WS, f)
		os.MkdirAll(filepath.Dir(p), 0755)
		if cur, err := os.ReadFile(p); err != nil || string(cur) != want[f] {
			os.WriteFile(p, []byte(want[f]), 0644)
		}
		m.written[f] = true
	}
}

// ---------------------------------------------------------------- disk listings

func diskListing(ws string, s *Spec) Listing {
	var l Listing
	for _, o := range s.Outs {
		rel := filepath.Join(s.Pkg, o.Path)
		abs := filepath.Join(ws, rel)
		st, err := os.Lstat(abs)
		if err != nil {
			l = append(l, Entry{Path: rel, Kind: "missing"})
			continue
		}
		if o.Kind == "dir" {
			if !st.IsDir() {
				l = append(l, Entry{Path: rel, Kind: "not-a-directory"})
				continue
			}
			l = append(l, Entry{Path: rel, Kind: "dir"})
			filepath.Walk(abs, func(p string, info os.FileInfo, err error) error {
				if err != nil || p == abs {
					return nil
				}
				r, _ := filepath.Rel(ws, p)
				switch {
				case info.Mode()&os.ModeSymlink != 0:
					t, _ := os.Readlink(p)
					l = append(l, Entry{Path: r, Kind: "link", Link: t})
				case info.IsDir():
					l = append(l, Entry{Path: r, Kind: "dir"})
				default:
					b, _ := os.ReadFile(p)
					l = append(l, Entry{Path: r, Kind: "file", Exec: info.Mode()&0111 != 0, Data: string(b)})
				}
				return nil
			})
			continue
		}
		if st.IsDir() {
			l = append(l, Entry{Path: rel, Kind: "not-a-file"})
			continue
		}
		b, _ := os.ReadFile(abs)
		l = append(l, Entry{Path: rel, Kind: "file", Exec: st.Mode()&0111 != 0, Data: string(b)})
	}
	sort.Slice(l, func(i, j int) bool { return l[i].Path < l[j].Path })
	return l
}

func writeListing(ws string, s *Spec, l Listing, omitFirst bool) {
	for i, o := range s.Outs {
		abs := filepath.Join(ws, s.Pkg, o.Path)
		keep := false
		if s.InPlace && o.Kind != "dir" && !(omitFirst && i == 0) {
			if st, err := os.Lstat(abs); err == nil && st.Mode().IsRegular() {
				keep = true // rewritten in place below (same inode)
			}
		}
		if !keep {
			os.RemoveAll(abs)
		}
		if omitFirst && i == 0 {
			continue
		}
		os.MkdirAll(filepath.Dir(abs), 0755)
	}
	skip := ""
	if omitFirst && len(s.Outs) > 0 {
		skip = filepath.Join(s.Pkg, s.Outs[0].Path)
	}
	for _, e := range l {
		if skip != "" && (e.Path == skip || strings.HasPrefix(e.Path, skip+"/")) {
			continue
		}
		abs := filepath.Join(ws, e.Path)
		switch e.Kind {
		case "dir":
			os.MkdirAll(abs, 0755)
		case "link":
			os.MkdirAll(filepath.Dir(abs), 0755)
			os.Symlink(e.Link, abs)
		case "file":
			os.MkdirAll(filepath.Dir(abs), 0755)
			mode := os.FileMode(0644)
			if e.Exec {
				mode = 0755
			}
			if s.BinNoChmod {
				for _, o := range s.Outs {
					if o.Kind == "bin" && filepath.Join(s.Pkg, o.Path) == e.Path {
						mode = 0644 // grog marks the declared bin output executable itself
					}
				}
			}
			os.WriteFile(abs, []byte(e.Data), mode)
			os.Chmod(abs, mode)
		}
	}
}

// ---------------------------------------------------------------- the simulated shell

func envValue(env []string, key string) string {
	v := ""
	for _, e := range env {
		if strings.HasPrefix(e, key+"=") {
			v = e[len(key)+1:]
		}
	}
	return v
}

func (w *wbuild) handler(inv *simexec.Invocation) (int, error) {
	cmd := inv.Cmd
	if cmd.Path == "git" {
		return 128, nil
	}
	if cmd.Path != "sh" {
		// `grog run`: executing a binary output
		st, err := os.Stat(cmd.Path)
		if err != nil {
			return 0, &os.PathError{Op: "fork/exec", Path: cmd.Path, Err: os.ErrNotExist}
		}
		if st.Mode()&0111 == 0 {
			return 0, &os.PathError{Op: "fork/exec", Path: cmd.Path, Err: os.ErrPermission}
		}
		w.mu.Lock()
		w.ranBin = append(w.ranBin, cmd.Path)
		w.mu.Unlock()
		return 0, nil
	}
	script := ""
	if len(cmd.Args) >= 3 {
		script = cmd.Args[2]
	}
	var line string
	for _, l := range strings.Split(script, "\n") {
		l = strings.TrimSpace(l)
		if strings.HasPrefix(l, ": SIMCMD ") || strings.HasPrefix(l, ": SIMCHECK ") {
			line = l
		}
	}
	f := strings.Fields(line)
	if len(f) < 4 {
		return 127, nil
	}
	w.mu.Lock()
	u := w.U
	m := w.M
	invN := w.inv
	w.mu.Unlock()
	s := u.Specs[f[2]]
	if s == nil {
		return 127, nil
	}
	if cp := simrt.CurProc(); cp != nil && w.contend {
		w.mu.Lock()
		h, gave := w.holder, w.gaveUpLock[cp]
		if w.lockTainted {
			h = nil
		}
		if w.liveProc == nil {
			w.liveProc = map[*simexec.Invocation]*simrt.Proc{}
		}
		w.liveProc[inv] = cp
		w.mu.Unlock()
		defer func() {
			w.mu.Lock()
			delete(w.liveProc, inv)
			w.mu.Unlock()
		}()
		if h != nil && cp != h && !h.Dead() {
			w.s.Report(simrt.Violation{Prop: "C10", Class: "two-builds-in-one-workspace", Signature: "shell-started-without-holding-the-lock",
				Detail: fmt.Sprintf("%s started a target shell (%s) while the workspace lock file in place is the one %s created, and %s is still running", cp.Name, s.Label(), h.Name, h.Name)})
		}
		if gave {
			w.s.Report(simrt.Violation{Prop: "C10", Class: "lock-released-while-the-build-is-still-running", Signature: "shell-started-after-release",
				Detail: fmt.Sprintf("%s started a target shell (%s) after it had removed its own workspace lock file", cp.Name, s.Label())})
		}
	}
	if f[1] == "SIMCHECK" {
		key := f[3]
		ev := ExecEvent{Inv: invN, Label: s.Label(), Kind: "check", Start: inv.StartStep, Machine: m.Name, StartMS: inv.StartSim.Milliseconds()}
		// an output check is a shell like any other: it takes time, it has to be killed on
		// cancellation and must not be forked after an interrupt
		w.mu.Lock()
		if w.live == nil {
			w.live = map[*simexec.Invocation]string{}
		}
		w.live[inv] = s.Label() + " (output check)"
		w.mu.Unlock()
		defer func() {
			w.mu.Lock()
			delete(w.live, inv)
			w.mu.Unlock()
		}()
		if !inv.Sleep(time.Duration(s.CheckMS) * time.Millisecond) {
			ev.End = w.s.Steps()
			ev.EndMS = w.s.SimElapsed().Milliseconds()
			ev.Killed = true
			ev.Exit = 1
			w.record(ev)
			return 1, nil
		}
		w.mu.Lock()
		val := u.Ext[key]
		rcFail := u.Ext[key+"#rc"] == "fail" // the check prints what it prints, but exits non-zero
		w.mu.Unlock()
		if cmd.Stdout != nil {
			cmd.Stdout.Write([]byte(val + "\n"))
		}
		ev.End = w.s.Steps()
		if val == "" || rcFail {
			ev.Exit = 1
		}
		w.record(ev)
		return ev.Exit, nil
	}
	// ---- target command
	// grog prepends shell helpers to the script: $(output <label> <i>) / $(bin <label>) resolve
	// through case tables built from the target's direct dependencies. The simulated command
	// "uses" the helper for every dependency that has outputs: a missing entry fails it.
	if oi := strings.Index(script, "\noutput() {"); oi >= 0 {
		for _, d := range u.DepTargets(s) {
			if ds := u.Specs[d]; ds != nil && len(ds.Outs) > 0 && !strings.Contains(script[oi:], "\""+d+"\")") {
				evh := ExecEvent{Inv: invN, Label: s.Label(), Kind: "cmd", Start: inv.StartStep, Machine: m.Name, StartMS: inv.StartSim.Milliseconds(), Exit: 1}
				evh.End = w.s.Steps()
				evh.EndMS = w.s.SimElapsed().Milliseconds()
				evh.Note = "unknown output label " + d + " in the $(output) helper of this command"
				w.record(evh)
				if cmd.Stderr != nil {
					cmd.Stderr.Write([]byte("Error: unknown output label '" + d + "'\n"))
				}
				return 1, nil
			}
		}
	}
	inv.TrapTerm = s.TrapTerm
	w.mu.Lock()
	if w.live == nil {
		w.live = map[*simexec.Invocation]string{}
	}
	w.live[inv] = s.Label()
	w.mu.Unlock()
	defer func() {
		w.mu.Lock()
		delete(w.live, inv)
		w.mu.Unlock()
	}()
	ev := ExecEvent{Inv: invN, Label: s.Label(), Kind: "cmd", Start: inv.StartStep, Machine: m.Name, StartMS: inv.StartSim.Milliseconds()}
	w.mu.Lock()
	w.running++
	if w.running > w.maxRun {
		w.maxRun = w.running
	}
	over := w.running > w.curOpts.Workers && !w.contended // two builds at once share the counter
	workers := w.curOpts.Workers
	running := w.running
	w.mu.Unlock()
	if over {
		w.s.Report(simrt.Violation{Prop: "C03", Class: "too-many-running", Signature: "wbuild",
			Detail: fmt.Sprintf("%d target commands running with num_workers=%d", running, workers)})
	}
	defer func() {
		w.mu.Lock()
		w.running--
		w.mu.Unlock()
	}()
	// read inputs and dependency outputs as found on disk
	view := &CommandView{Platform: envValue(cmd.Env, "GROG_PLATFORM"), Ext: u.Ext, Inputs: map[string]*string{}, DepListings: map[string]Listing{}}
	for _, in := range u.ResolveInputs(s) {
		if b, err := os.ReadFile(filepath.Join(cmd.Dir, in)); err == nil {
			c := string(b)
			view.Inputs[in] = &c
		} else {
			view.Inputs[in] = nil
		}
	}
	var wrong []string
	ws := envValue(cmd.Env, "GROG_WORKSPACE_ROOT")
	if ws == "" {
		ws = m.WS
	}
	ev2 := NewEval(u, view.Platform)
	for _, d := range u.DepTargets(s) {
		ds := u.Specs[d]
		if len(ds.Outs) == 0 {
			continue
		}
		l := diskListing(ws, ds)
		view.DepListings[d] = l
		if l.String() != ev2.Clean(d).String() {
			wrong = append(wrong, d)
			if ev.wrongListings == nil {
				ev.wrongListings = map[string]string{}
			}
			ev.wrongListings[d] = l.String()
		}
	}
	ev.WrongDeps = strings.Join(wrong, ",")
	w.mu.Lock()
	extFail := u.ExtFail(s)
	w.mu.Unlock()
	dur := time.Duration(s.DurMS) * time.Millisecond
	if s.Fail == "slow" || extFail == "slow" {
		dur = time.Duration(s.TimeoutMS*3) * time.Millisecond
	}
	alive := inv.Sleep(dur / 2)
	if alive {
		dg := RunDigest(s, view)
		writeListing(ws, s, OutputListing(s, dg, view), s.Fail == "omit" || extFail == "omit")
		if s.Breaks || extFail == "break" {
			w.mu.Lock()
			for _, c := range s.Checks {
				u.Ext[c.Key] = "broken"
				if c.Expect == "" {
					u.Ext[c.Key] = ""
				}
			}
			w.mu.Unlock()
		} else if s.Establish {
			w.mu.Lock()
			for _, c := range s.Checks {
				want := c.Expect
				if want == "" {
					want = "ok"
				}
				u.Ext[c.Key] = want
				delete(u.Ext, c.Key+"#rc")
			}
			w.mu.Unlock()
		}
		alive = inv.Sleep(dur - dur/2)
	}
	ev.End = w.s.Steps()
	ev.EndMS = w.s.SimElapsed().Milliseconds()
	ev.Killed = !alive
	if s.Fail == "exit" || extFail == "exit" {
		ev.Exit = 1
	}
	w.record(ev)
	return ev.Exit, nil
}

func (w *wbuild) record(ev ExecEvent) {
	w.mu.Lock()
	w.events = append(w.events, ev)
	w.mu.Unlock()
}

// ---------------------------------------------------------------- invocations

func (w *wbuild) configFor(m *Machine, opts InvOpts, req BuildReq, logPath string) config.WorkspaceConfig {
	pf := strings.SplitN(opts.Platform, "/", 2)
	cfg := config.WorkspaceConfig{
		Root:                           m.Root,
		WorkspaceRoot:                  m.WS,
		FailFast:                       opts.FailFast,
		NumWorkers:                     opts.Workers,
		LoadOutputs:                    opts.LoadOutputs,
		HashAlgorithm:                  opts.Hash,
		LogLevel:                       "info",
		LogOutputPath:                  logPath,
		AllPlatforms:                   req.AllPlatforms,
		EnableCache:                    opts.EnableCache,
		OS:                             pf[0],
		Arch:                           pf[1],
		Tags:                           req.Tags,
		ExcludeTags:                    req.ExcludeTags,
		DisableNonDeterministicLogging: true,
	}
	if opts.Remote {
		cfg.Cache = config.CacheConfig{Backend: config.S3CacheBackend, S3: config.S3CacheConfig{Bucket: "simbucket", Prefix: "pfx"}}
	}
	return cfg
}

// invoke runs one grog command as a simulated process and waits for it.
func (w *wbuild) invoke(m *Machine, req BuildReq, opts InvOpts, arm func(p *simrt.Proc)) *InvResult {
	w.mu.Lock()
	w.inv++
	n := w.inv
	w.M = m
	w.curOpts = opts
	w.running = 0 // commands of a killed process may be left blocked (zombies)
	first := len(w.events)
	w.mu.Unlock()
	logPath := filepath.Join(w.base, fmt.Sprintf("log-%s-%d.txt", m.Name, n))
	config.Global = w.configFor(m, opts, req, logPath)
	startSteps := w.s.Steps()
	startSim := w.s.SimElapsed()
	cwd := filepath.Join(m.WS, req.CwdPkg)
	var proc *simrt.Proc
	proc = w.s.StartProc(fmt.Sprintf("grog-%s-%d", req.Kind, n), func() {
		pd := simos.PD(simrt.CurProc())
		pd.Cwd = cwd
		pd.Environ = []string{"PATH=/usr/bin:/bin", "HOME=" + m.Root}
		if arm != nil {
			arm(simrt.CurProc())
		}
		switch req.Kind {
		case "build":
			cmds.BuildCmd.Run(cmds.BuildCmd, req.Patterns)
		case "test":
			cmds.TestCmd.Run(cmds.TestCmd, req.Patterns)
		case "taint":
			cmds.TaintCmd.Run(cmds.TaintCmd, req.Patterns)
		case "run":
			cmds.RunCmd.Run(cmds.RunCmd, req.Patterns)
		}
	})
	var procB *simrt.Proc
	w.mu.Lock()
	w.contended = false
	w.mu.Unlock()
	if w.contend && req.Kind == "build" && w.c.Choose(2, "contender") == 1 {
		delay := time.Duration([]int{0, 1, 20, 400, 1500}[w.c.Choose(5, "contender-delay")]) * time.Millisecond
		w.mu.Lock()
		w.holder, w.gaveUpLock, w.contended, w.lockTainted = nil, map[*simrt.Proc]bool{}, true, false
		if pl := simos.Plan; pl != nil {
			prevTouched := pl.Touched
			pl.Touched = func(op, path, kind string) {
				if strings.HasSuffix(path, "/lockfile") {
					w.mu.Lock()
					w.lockTainted = true
					w.mu.Unlock()
				}
				if prevTouched != nil {
					prevTouched(op, path, kind)
				}
			}
			defer func() { pl.Touched = prevTouched }()
		}
		w.mu.Unlock()
		prevTrace := simos.Trace
		simos.Trace = func(p *simrt.Proc, op, path string) {
			if strings.HasSuffix(path, "/lockfile") {
				w.mu.Lock()
				switch op {
				case "open":
					if _, err := os.Lstat(path); err != nil {
						w.holder = p // O_CREATE|O_EXCL is about to succeed: p's lock file is in place
					}
				case "remove":
					if w.holder == p {
						// the holder releases. Legitimate once its build is over; premature while one
						// of its target shells is still running (more activity after the release is
						// reported where it happens)
						var mine []string
						for iv, q := range w.liveProc {
							if q == p && iv.Ctx.Err() == nil {
								mine = append(mine, w.live[iv])
							}
						}
						w.holder = nil
						w.gaveUpLock[p] = true
						if len(mine) > 0 {
							sort.Strings(mine)
							w.mu.Unlock()
							w.s.Report(simrt.Violation{Prop: "C10", Class: "lock-released-while-the-build-is-still-running", Signature: "released-with-shells-running",
								Detail: fmt.Sprintf("%s removed its workspace lock file while its target shells %v were still running", p.Name, mine)})
							w.mu.Lock()
						}
					} else if w.holder != nil && !w.holder.Dead() {
						// someone else removes a live holder's lock: the recorded windows of the locker
						// protocol (W-lock decides those); what follows is their consequence
						w.holder = nil
						w.lockTainted = true
						simrt.Probe("contender-removed-the-holders-lock")
					} else {
						w.holder = nil
					}
				}
				w.mu.Unlock()
			} else if (op == "rename" || op == "create" || op == "createtemp") && strings.Contains(path, "/cache/") {
				w.mu.Lock()
				gave := w.gaveUpLock[p]
				w.mu.Unlock()
				if gave {
					w.s.Report(simrt.Violation{Prop: "C10", Class: "lock-released-while-the-build-is-still-running", Signature: "cache-write-after-release",
						Detail: fmt.Sprintf("%s wrote into the cache (%s %s) after it had removed its own workspace lock file", p.Name, op, filepath.Base(path))})
				}
			}
			if prevTrace != nil {
				prevTrace(p, op, path)
			}
		}
		defer func() { simos.Trace = prevTrace }()
		started := make(chan struct{})
		simrt.Go("wbuild:contender-start", func() {
			defer close(started)
			if delay > 0 {
				simrt.Block0(func() { time.Sleep(delay) }, "wbuild:contender-delay")
			}
			simrt.Fault("contending-build")
			procB = w.s.StartProc(fmt.Sprintf("grog-contender-%d", n), func() {
				pd := simos.PD(simrt.CurProc())
				pd.Cwd = m.WS
				pd.Environ = []string{"PATH=/usr/bin:/bin", "HOME=" + m.Root}
				cmds.BuildCmd.Run(cmds.BuildCmd, []string{"//..."})
			})
		})
		w.s.WaitProc(proc)
		simrt.Recv((<-chan struct{})(started), "wbuild:contender-started")
		if procB != nil {
			w.s.WaitProc(procB)
		}
		w.mu.Lock()
		w.holder = nil
		w.mu.Unlock()
	} else {
		w.s.WaitProc(proc)
	}
	res := &InvResult{N: n, ExitCode: proc.ExitCode, Cause: proc.Cause, Steps: w.s.Steps() - startSteps, SimMS: (w.s.SimElapsed() - startSim).Milliseconds(),
		Ops: simos.PD(proc).Ops, EndSimMS: w.s.SimElapsed().Milliseconds()}
	if b, err := os.ReadFile(logPath); err == nil {
		res.Log = string(b)
	}

	w.mu.Lock()
	res.Events = append([]ExecEvent(nil), w.events[first:]...)
	for inv, l := range w.live {
		if inv.Ctx.Err() == nil {
			res.Orphans = append(res.Orphans, l)
		}
	}
	sort.Strings(res.Orphans)
	w.live = nil
	w.mu.Unlock()
	return res
}

func removeOutputs(ws string, s *Spec) {
	for _, o := range s.Outs {
		os.RemoveAll(filepath.Join(ws, s.Pkg, o.Path))
	}
}
