package zzharness

import (
	"crypto/sha256"
	"encoding/hex"
	"encoding/json"
	"fmt"
	"path"
	"sort"
	"strings"
)

// ---------------------------------------------------------------------------------------
// Reference model of a grog workspace. No grog imports: it is written from the
// documentation and the property statements (DESIGN.md appendix A).
// ---------------------------------------------------------------------------------------

// TreeEnt is one entry of a directory output.
type TreeEnt struct {
	Rel   string `json:"rel"`
	Kind  string `json:"kind"` // file | dir | link
	Exec  bool   `json:"exec,omitempty"`
	Class int    `json:"class,omitempty"` // file content: 0 unique, 1 shared with other entries, 2 empty
	Link  string `json:"link,omitempty"`
}

// OutSpec is a declared output.
type OutSpec struct {
	Kind string    `json:"kind"` // file | dir | bin
	Path string    `json:"path"` // relative to the package directory
	Tree []TreeEnt `json:"tree,omitempty"`
	// Stash: the tree this output had while it was a directory (generator bookkeeping only)
	Stash  []TreeEnt `json:"stash,omitempty"`
	WasDir bool      `json:"was_dir,omitempty"`
}

func (o OutSpec) Decl() string {
	if o.Kind == "dir" {
		return "dir::" + o.Path
	}
	return o.Path
}

// CheckSpec is an output check on an external condition.
type CheckSpec struct {
	Key    string `json:"key"`
	Expect string `json:"expect"` // "" = exit status only
}

// Spec is a target definition plus the behaviour of its (simulated) command.
type Spec struct {
	Pkg       string    `json:"pkg"`
	Name      string    `json:"name"`
	Inputs    []string  `json:"inputs,omitempty"`
	Excludes  []string  `json:"excludes,omitempty"`
	Deps      []string  `json:"deps,omitempty"`
	Outs      []OutSpec `json:"outs,omitempty"`
	Tags      []string  `json:"tags,omitempty"`
	FP        []string  `json:"fp,omitempty"`
	Platforms []string  `json:"platforms,omitempty"` // effective selectors (own list, or inherited)
	// PlatMode says how the BUILD file spells them: "" = own list (or none), "inherit" = the field
	// is absent and the package's default_platforms apply, "empty" = an explicit empty list that
	// opts out of the package default
	PlatMode  string      `json:"plat_mode,omitempty"`
	TimeoutMS int         `json:"timeout_ms,omitempty"`
	Checks    []CheckSpec `json:"checks,omitempty"`
	Ver       int         `json:"ver"`
	Proj      string      `json:"proj,omitempty"` // all | first | none
	DurMS     int         `json:"dur_ms"`
	Fail      string      `json:"fail,omitempty"` // "" | exit | omit | slow
	NoCmd     bool        `json:"no_cmd,omitempty"`
	// NonHermetic: the command's output also depends on the undeclared external value
	// Ext["epoch"] (a timestamp, a network resource): re-executing it under the SAME cache key
	// after the epoch ticked produces different bytes. Only targets nothing depends on.
	NonHermetic bool `json:"non_hermetic,omitempty"`
	// TrapTerm: the command's shell traps SIGTERM/SIGINT and carries on; only SIGKILL stops it.
	TrapTerm bool `json:"trap_term,omitempty"`
	// CheckMS: how long each output check of this target runs (fake clock)
	CheckMS int `json:"check_ms,omitempty"`
	// BinNoChmod: the command leaves its bin output non-executable and relies on grog marking
	// it executable (documented for bin_output).
	BinNoChmod bool `json:"bin_no_chmod,omitempty"`
	// InPlace: the command rewrites existing file outputs in place (`gen > out`: truncate and
	// write through the existing inode) instead of removing them first (`rm -f out; gen > out`).
	InPlace bool `json:"in_place,omitempty"`
	// Establish: executing the command establishes the external conditions its checks test.
	Establish bool `json:"establish,omitempty"`
	// Breaks: executing the command leaves the checked conditions in a state the checks reject.
	Breaks bool `json:"breaks,omitempty"`
}

// ExtFail is the externally caused failure mode of a target's command ("" | exit | omit |
// break): flaky network, full disk ... it is not part of the target's definition.
func (u *Universe) ExtFail(s *Spec) string {
	k := u.Ext["fail_"+s.Label()]
	if k == "omit" && len(s.Outs) == 0 {
		return "exit"
	}
	if k == "break" && len(s.Checks) == 0 {
		return "exit"
	}
	if k == "slow" && s.TimeoutMS == 0 {
		return "exit"
	}
	return k
}

func (s *Spec) Label() string { return "//" + s.Pkg + ":" + s.Name }
func (s *Spec) HasTag(t string) bool {
	for _, x := range s.Tags {
		if x == t {
			return true
		}
	}
	return false
}
func (s *Spec) IsTest() bool { return strings.HasSuffix(s.Name, "test") }

// Universe is the state of the sources of one workspace plus the external world.
type Universe struct {
	Files   map[string]string `json:"files"`   // workspace-relative path -> content
	Specs   map[string]*Spec  `json:"specs"`   // label -> spec
	Aliases map[string]string `json:"aliases"` // alias label -> actual label
	Ext     map[string]string `json:"ext"`     // external state (tool versions, checked conditions)
	// PkgPlat: package-level default_platforms (package path -> selectors)
	PkgPlat map[string][]string `json:"pkg_platforms,omitempty"`
}

func (u *Universe) Clone() *Universe {
	b, _ := json.Marshal(u)
	var c Universe
	json.Unmarshal(b, &c)
	if c.Files == nil {
		c.Files = map[string]string{}
	}
	if c.Specs == nil {
		c.Specs = map[string]*Spec{}
	}
	if c.Aliases == nil {
		c.Aliases = map[string]string{}
	}
	if c.Ext == nil {
		c.Ext = map[string]string{}
	}
	return &c
}

func sortedKeys[V any](m map[string]V) []string {
	ks := make([]string, 0, len(m))
	for k := range m {
		ks = append(ks, k)
	}
	sort.Strings(ks)
	return ks
}

// Labels returns all target labels in sorted order.
func (u *Universe) Labels() []string { return sortedKeys(u.Specs) }

// Resolve follows aliases to a target label ("" if dangling).
func (u *Universe) Resolve(l string) string {
	return u.resolveIn("", l)
}

// resolveIn resolves a dependency reference of a target in package pkg (":name" is relative).
func (u *Universe) resolveIn(pkg, l string) string {
	if strings.HasPrefix(l, ":") {
		l = "//" + pkg + l
	}
	for i := 0; i < 8; i++ {
		if _, ok := u.Specs[l]; ok {
			return l
		}
		a, ok := u.Aliases[l]
		if !ok {
			return ""
		}
		l = a
	}
	return ""
}

// DepTargets are the direct dependencies of s resolved through aliases (sorted, unique).
func (u *Universe) DepTargets(s *Spec) []string {
	seen := map[string]bool{}
	var out []string
	for _, d := range s.Deps {
		if r := u.resolveIn(s.Pkg, d); r != "" && !seen[r] {
			seen[r] = true
			out = append(out, r)
		}
	}
	sort.Strings(out)
	return out
}

// Topo returns the given labels plus their transitive dependencies in dependency order.
func (u *Universe) Topo(roots []string) []string {
	var out []string
	state := map[string]int{}
	var visit func(l string)
	visit = func(l string) {
		if state[l] != 0 {
			return
		}
		state[l] = 1
		if s := u.Specs[l]; s != nil {
			for _, d := range u.DepTargets(s) {
				visit(d)
			}
			out = append(out, l)
		}
	}
	rs := append([]string(nil), roots...)
	sort.Strings(rs)
	for _, r := range rs {
		visit(r)
	}
	return out
}

// ---------------------------------------------------------------- globs (documented subset)

// globMatch implements the documented glob forms the generator uses:
// literal names, "*.ext", "dir/*.ext", "**/*.ext", "dir/**/*.ext", "dir/**".
func globMatch(pattern, name string) bool {
	pp := strings.Split(pattern, "/")
	np := strings.Split(name, "/")
	var rec func(i, j int) bool
	rec = func(i, j int) bool {
		if i == len(pp) {
			return j == len(np)
		}
		if pp[i] == "**" {
			if i == len(pp)-1 {
				return j < len(np) // dir/** matches every file below
			}
			for k := j; k <= len(np); k++ {
				if rec(i+1, k) {
					return true
				}
			}
			return false
		}
		if j >= len(np) {
			return false
		}
		ok, _ := path.Match(pp[i], np[j])
		return ok && rec(i+1, j+1)
	}
	return rec(0, 0)
}

func isGlob(p string) bool { return strings.ContainsAny(p, "*?[{") }

// ResolveInputs returns the package-relative input paths of s in sorted order.
func (u *Universe) ResolveInputs(s *Spec) []string {
	prefix := s.Pkg
	if prefix != "" {
		prefix += "/"
	}
	set := map[string]bool{}
	var rels []string
	for _, f := range sortedKeys(u.Files) {
		if !strings.HasPrefix(f, prefix) {
			continue
		}
		rels = append(rels, strings.TrimPrefix(f, prefix))
	}
	for _, in := range s.Inputs {
		if !isGlob(in) {
			set[in] = true
			continue
		}
		for _, r := range rels {
			if globMatch(in, r) {
				set[r] = true
			}
		}
	}
	for _, ex := range s.Excludes {
		for _, r := range rels {
			if globMatch(ex, r) {
				delete(set, r)
			}
		}
	}
	out := sortedKeys(set)
	return out
}

// ---------------------------------------------------------------- listings

// Entry is one file-system object of an output listing.
type Entry struct {
	Path string `json:"path"` // relative to the workspace root
	Kind string `json:"kind"` // file | dir | link | missing
	Exec bool   `json:"exec,omitempty"`
	Data string `json:"data,omitempty"`
	Link string `json:"link,omitempty"`
}

// Listing is a sorted list of entries.
type Listing []Entry

func (l Listing) String() string {
	b, _ := json.Marshal(l)
	return string(b)
}

func (l Listing) Digest() string {
	h := sha256.Sum256([]byte(l.String()))
	return hex.EncodeToString(h[:8])
}

func hexDigest(parts ...string) string {
	h := sha256.New()
	for _, p := range parts {
		fmt.Fprintf(h, "%d:", len(p))
		h.Write([]byte(p))
	}
	return hex.EncodeToString(h.Sum(nil))
}

// CommandView is what a command observes when it runs.
type CommandView struct {
	Platform string
	Ext      map[string]string
	// Inputs: package-relative name -> bytes (nil = absent)
	Inputs map[string]*string
	// DepListings: resolved dependency label -> listing of its outputs as found on disk
	DepListings map[string]Listing
}

// RunDigest is the pure function every simulated command computes from what it read.
func RunDigest(s *Spec, v *CommandView) string {
	parts := []string{s.Label(), fmt.Sprint(s.Ver)}
	if s.Proj == "parity" {
		// label-independent command: two such targets in different packages produce identical
		// outputs when their inputs have the same parity
		parts = []string{"parity"}
		for _, name := range sortedKeys(v.Inputs) {
			if c := v.Inputs[name]; c != nil {
				parts = append(parts, fmt.Sprint(len(*c)%2))
			}
		}
		return hexDigest(parts...)
	}
	if !s.HasTag("multiplatform-cache") {
		parts = append(parts, v.Platform)
	}
	for _, k := range s.FP {
		parts = append(parts, "fp", k, v.Ext[k])
	}
	if s.NonHermetic {
		parts = append(parts, "epoch", v.Ext["epoch"])
	}
	for _, name := range sortedKeys(v.Inputs) {
		c := v.Inputs[name]
		switch {
		case s.Proj == "none":
			// ignores its inputs altogether
		case c == nil:
			parts = append(parts, "in", name, "absent")
		case s.Proj == "first":
			fb := ""
			if len(*c) > 0 {
				fb = (*c)[:1]
			}
			parts = append(parts, "in", name, fb)
		default:
			parts = append(parts, "in", name, *c)
		}
	}
	for _, d := range sortedKeys(v.DepListings) {
		parts = append(parts, "dep", d, v.DepListings[d].String())
	}
	return hexDigest(parts...)
}

// OutputListing is what the command writes for digest dg.
func OutputListing(s *Spec, dg string, v *CommandView) Listing {
	var l Listing
	// "mirror" commands copy their i-th input (sorted) to their i-th file output, like cp:
	// the content of an output does not depend on its path, two outputs can swap contents
	var mirror []string
	if s.Proj == "mirror" && v != nil {
		for _, name := range sortedKeys(v.Inputs) {
			if c := v.Inputs[name]; c != nil {
				mirror = append(mirror, *c)
			}
		}
	}
	for i, o := range s.Outs {
		base := path.Join(s.Pkg, o.Path)
		switch o.Kind {
		case "file":
			if len(mirror) > 0 {
				l = append(l, Entry{Path: base, Kind: "file", Data: "copy:" + mirror[i%len(mirror)] + "\n"})
				continue
			}
			h := hexDigest(dg, o.Path)
			n := 8 + int(h[0])%40 // sizes vary with the content: restores meet longer and shorter old files
			l = append(l, Entry{Path: base, Kind: "file", Data: h[:n] + "\n"})
		case "bin":
			l = append(l, Entry{Path: base, Kind: "file", Exec: true, Data: "#!sim\n" + hexDigest(dg, o.Path)[:24] + "\n"})
		case "dir":
			l = append(l, Entry{Path: base, Kind: "dir"})
			for _, e := range o.Tree {
				p := path.Join(base, e.Rel)
				switch e.Kind {
				case "dir":
					l = append(l, Entry{Path: p, Kind: "dir"})
				case "link":
					l = append(l, Entry{Path: p, Kind: "link", Link: e.Link})
				default:
					data := hexDigest(dg, o.Path, e.Rel)[:32] + "\n"
					if e.Class == 1 {
						data = hexDigest(dg, "shared")[:32] + "\n"
					} else if e.Class == 2 {
						data = ""
					}
					l = append(l, Entry{Path: p, Kind: "file", Exec: e.Exec, Data: data})
				}
			}
		}
	}
	sort.Slice(l, func(i, j int) bool { return l[i].Path < l[j].Path })
	return l
}

// ---------------------------------------------------------------- clean build + keys

// Eval holds the model's evaluation of a universe for one platform.
type Eval struct {
	U        *Universe
	Platform string
	clean    map[string]Listing
	strict   map[string]string
	loose    map[string]string
}

func NewEval(u *Universe, platform string) *Eval {
	return &Eval{U: u, Platform: platform, clean: map[string]Listing{}, strict: map[string]string{}, loose: map[string]string{}}
}

// Clean returns the outputs a from-scratch build of the current sources produces for l.
func (e *Eval) Clean(l string) Listing {
	if c, ok := e.clean[l]; ok {
		return c
	}
	s := e.U.Specs[l]
	v := &CommandView{Platform: e.Platform, Ext: e.U.Ext, Inputs: map[string]*string{}, DepListings: map[string]Listing{}}
	prefix := s.Pkg
	if prefix != "" {
		prefix += "/"
	}
	for _, in := range e.U.ResolveInputs(s) {
		if c, ok := e.U.Files[prefix+in]; ok {
			cc := c
			v.Inputs[in] = &cc
		} else {
			v.Inputs[in] = nil
		}
	}
	for _, d := range e.U.DepTargets(s) {
		if len(e.U.Specs[d].Outs) > 0 {
			v.DepListings[d] = e.Clean(d)
		}
	}
	out := OutputListing(s, RunDigest(s, v), v)
	e.clean[l] = out
	return out
}

// CleanAt is Clean with the external epoch set to `epoch` (non-hermetic targets: what the
// command produced when it ran at that epoch).
func (e *Eval) CleanAt(l, epoch string) Listing {
	u2 := e.U.Clone()
	u2.Ext["epoch"] = epoch
	return NewEval(u2, e.Platform).Clean(l)
}

// keys: strict omits output-less dependencies (their state is not part of the dependant's
// observable inputs); loose includes their key (documented file-group behaviour).
func (e *Eval) key(l string, loose bool) string {
	cache := e.strict
	if loose {
		cache = e.loose
	}
	if k, ok := cache[l]; ok {
		return k
	}
	s := e.U.Specs[l]
	parts := []string{"label", l, "cmd", fmt.Sprint(s.Ver, s.NoCmd)}
	prefix := s.Pkg
	if prefix != "" {
		prefix += "/"
	}
	for _, in := range e.U.ResolveInputs(s) {
		c, ok := e.U.Files[prefix+in]
		if !ok {
			parts = append(parts, "in", in, "absent")
		} else {
			parts = append(parts, "in", in, c)
		}
	}
	var decl []string
	for _, o := range s.Outs {
		decl = append(decl, o.Kind+"::"+o.Path)
	}
	sort.Strings(decl)
	parts = append(parts, "outs", strings.Join(decl, "\x00"))
	for _, k := range s.FP {
		parts = append(parts, "fp", k, e.U.Ext[k])
	}
	if !s.HasTag("multiplatform-cache") {
		parts = append(parts, "platform", e.Platform)
	}
	for _, d := range e.U.DepTargets(s) {
		if len(e.U.Specs[d].Outs) > 0 {
			parts = append(parts, "dep", d, e.Clean(d).String())
		} else if loose {
			parts = append(parts, "dep0", d, e.key(d, true))
		}
	}
	k := hexDigest(parts...)
	cache[l] = k
	return k
}

func (e *Eval) Strict(l string) string { return e.key(l, false) }
func (e *Eval) Loose(l string) string  { return e.key(l, true) }

// ---------------------------------------------------------------- selection (documented)

// Pattern is a parsed target pattern.
type Pattern struct {
	Pkg       string
	Recursive bool
	Name      string // "" = all names
}

// ParsePattern follows docs/reference/labels.md.
func ParsePattern(cwdPkg, p string) (Pattern, bool) {
	if strings.HasPrefix(p, ":") {
		n := p[1:]
		if n == "all" || n == "..." {
			n = ""
		}
		return Pattern{Pkg: cwdPkg, Name: n}, true
	}
	if !strings.HasPrefix(p, "//") {
		return Pattern{}, false
	}
	body := p[2:]
	name := ""
	hasName := false
	if i := strings.Index(body, ":"); i >= 0 {
		name, body, hasName = body[i+1:], body[:i], true
	}
	rec := false
	if body == "..." {
		body, rec = "", true
	} else if strings.HasSuffix(body, "/...") {
		body, rec = strings.TrimSuffix(body, "/..."), true
	}
	if hasName && (name == "all" || name == "...") {
		name = ""
	} else if !hasName && !rec {
		name = path.Base(body) // shorthand //a/b == //a/b:b
	}
	return Pattern{Pkg: body, Recursive: rec, Name: name}, true
}

func (p Pattern) Matches(label string) bool {
	body := strings.TrimPrefix(label, "//")
	i := strings.LastIndex(body, ":")
	pkg, name := body[:i], body[i+1:]
	if p.Name != "" && p.Name != name {
		return false
	}
	if p.Recursive {
		return p.Pkg == "" || pkg == p.Pkg || strings.HasPrefix(pkg, p.Pkg+"/")
	}
	return pkg == p.Pkg
}

// BuildReq describes one invocation's selection inputs.
type BuildReq struct {
	Kind         string   `json:"kind"` // build | test
	CwdPkg       string   `json:"cwd_pkg"`
	Patterns     []string `json:"patterns"`
	Tags         []string `json:"tags,omitempty"`
	ExcludeTags  []string `json:"exclude_tags,omitempty"`
	AllPlatforms bool     `json:"all_platforms,omitempty"`
}

// Selection is the model's answer.
type Selection struct {
	Must map[string]bool // targets that must be part of the invocation
	May  map[string]bool // targets the documentation leaves open (reached only through a matched alias under filters)
	// PlatformError: a selected target depends on a platform-incompatible one -> the
	// invocation must fail before any command runs.
	PlatformError bool
	// MayError: a pattern matches an alias whose target (or its closure) is platform
	// incompatible or filtered; the documentation does not say whether that is an error.
	MayError bool
	Matched  int
}

func platformOK(s *Spec, platform string, all bool) bool {
	if all || len(s.Platforms) == 0 {
		return true
	}
	for _, p := range s.Platforms {
		if p == platform {
			return true
		}
	}
	return false
}

func (u *Universe) Select(req BuildReq, platform string) Selection {
	sel := Selection{Must: map[string]bool{}, May: map[string]bool{}}
	var pats []Pattern
	for _, p := range req.Patterns {
		if pp, ok := ParsePattern(req.CwdPkg, p); ok {
			pats = append(pats, pp)
		}
	}
	matches := func(l string) bool {
		for _, p := range pats {
			if p.Matches(l) {
				return true
			}
		}
		return false
	}
	filters := func(s *Spec) bool {
		if req.Kind == "build" && s.IsTest() {
			return false
		}
		if req.Kind == "test" && !s.IsTest() {
			return false
		}
		if len(req.Tags) > 0 {
			ok := false
			for _, t := range req.Tags {
				if s.HasTag(t) {
					ok = true
				}
			}
			if !ok {
				return false
			}
		}
		for _, t := range req.ExcludeTags {
			if s.HasTag(t) {
				return false
			}
		}
		return true
	}
	var closure func(l string, into map[string]bool)
	closure = func(l string, into map[string]bool) {
		s := u.Specs[l]
		if s == nil || into[l] {
			return
		}
		into[l] = true
		for _, d := range u.DepTargets(s) {
			if !platformOK(u.Specs[d], platform, req.AllPlatforms) {
				sel.PlatformError = true
			}
			closure(d, into)
		}
	}
	for _, l := range u.Labels() {
		s := u.Specs[l]
		if matches(l) && filters(s) && platformOK(s, platform, req.AllPlatforms) {
			sel.Matched++
			closure(l, sel.Must)
		}
	}
	for _, a := range sortedKeys(u.Aliases) {
		if !matches(a) {
			continue
		}
		t := u.Resolve(a)
		if t == "" {
			continue
		}
		s := u.Specs[t]
		if filters(s) && platformOK(s, platform, req.AllPlatforms) {
			sel.Matched++
			closure(t, sel.Must)
		} else {
			// documentation is silent on filters applied through an alias
			sel.MayError = true
			pe := sel.PlatformError
			closure(t, sel.May)
			sel.PlatformError = pe
		}
	}
	for l := range sel.Must {
		delete(sel.May, l)
	}
	return sel
}
