package zzharness

import (
	"fmt"
	"os"
	"path/filepath"
	"regexp"
	"sort"
	"strconv"
	"strings"

	"grog/internal/zzsim/simexec"
	"grog/internal/zzsim/simos"
	"grog/internal/zzsim/simrt"
)

// cacheModel is the reference model of one cache namespace (DESIGN.md appendix A).
type cacheModel struct {
	strict map[string]bool
	loose  map[string]bool
	mayAll bool
	taint  map[string]bool
	// taints that may or may not have been consumed (crash / interrupt during the build)
	taintUnc map[string]bool
	// every listing a target's command has produced so far (to tell a stale restore from
	// an inexact one)
	produced map[string]map[string]*semState
	// strict keys recorded while an output-less dependency had a clobbered result
	depUnc map[string]bool
	// keys whose presence in the cache is uncertain (fail-fast cancellation, crash, faults)
	unc map[string]bool
	// non-hermetic targets: the epoch at which the result this machine holds for a key was
	// produced ("?" = unknown after faults / uncertain recordings)
	nhLast map[string]string
	// uncL: the same uncertainty per loose key (grog's key covers output-less dependencies and
	// their platform): a later certain recording under another loose variant of the same
	// strict key must not clear it
	uncL map[string]bool
	// nhDirty: an invocation of this machine ended before its restores were compared (failed /
	// faulted): what it fetched into the local cache meanwhile is unknown
	nhDirty bool
}

func newCacheModel() *cacheModel {
	return &cacheModel{strict: map[string]bool{}, loose: map[string]bool{}, taint: map[string]bool{}, taintUnc: map[string]bool{}, produced: map[string]map[string]*semState{}, unc: map[string]bool{}, depUnc: map[string]bool{}, nhLast: map[string]string{}, uncL: map[string]bool{}}
}

// semState is the semantic state of a target at the time one of its executions produced a
// listing; used to say in what respect a stale restore differs from the current state.
type semState struct {
	Cmd      string
	Inputs   map[string]string
	Outs     string
	FP       string
	Platform string
	Deps     map[string]string // resolved dependency -> listing (or loose key)
	ViaAlias map[string]bool
}

func (e *Eval) state(l string) *semState {
	sp := e.U.Specs[l]
	st := &semState{Cmd: fmt.Sprint(sp.Ver), Inputs: map[string]string{}, Deps: map[string]string{}, ViaAlias: map[string]bool{}}
	prefix := sp.Pkg
	if prefix != "" {
		prefix += "/"
	}
	for _, in := range e.U.ResolveInputs(sp) {
		st.Inputs[in] = e.U.Files[prefix+in]
	}
	var decl []string
	for _, o := range sp.Outs {
		decl = append(decl, o.Kind+"::"+o.Path)
	}
	sort.Strings(decl)
	st.Outs = strings.Join(decl, ",")
	for _, k := range sp.FP {
		st.FP += k + "=" + e.U.Ext[k] + ";"
	}
	if !sp.HasTag("multiplatform-cache") {
		st.Platform = e.Platform
	}
	for _, d := range sp.Deps {
		r := e.U.resolveIn(sp.Pkg, d)
		if r == "" {
			continue
		}
		if len(e.U.Specs[r].Outs) > 0 {
			st.Deps[r] = e.Clean(r).String()
		} else {
			st.Deps[r] = e.Loose(r)
		}
		if _, isAlias := e.U.Aliases[d]; isAlias {
			st.ViaAlias[r] = true
		}
	}
	return st
}

// diffStates names the components in which two semantic states differ.
func diffStates(cur, old *semState) string {
	var d []string
	if cur.Cmd != old.Cmd {
		d = append(d, "command")
	}
	if fmt.Sprint(sortedKeys(cur.Inputs)) != fmt.Sprint(sortedKeys(old.Inputs)) {
		d = append(d, "input-set")
	} else {
		same, catCur, catOld := true, "", ""
		for _, k := range sortedKeys(cur.Inputs) {
			if cur.Inputs[k] != old.Inputs[k] {
				same = false
			}
			catCur += cur.Inputs[k]
			catOld += old.Inputs[k]
		}
		if !same && catCur == catOld {
			d = append(d, "input-bytes-moved-across-files")
		} else if !same {
			d = append(d, "input-content")
		}
	}
	if cur.Outs != old.Outs {
		d = append(d, "declared-outputs")
	}
	if cur.FP != old.FP {
		d = append(d, "fingerprint")
	}
	if cur.Platform != old.Platform {
		d = append(d, "platform")
	}
	direct, alias, set := false, false, false
	if fmt.Sprint(sortedKeys(cur.Deps)) != fmt.Sprint(sortedKeys(old.Deps)) {
		set = true
	}
	for k, v := range cur.Deps {
		if ov, ok := old.Deps[k]; ok && ov != v {
			if cur.ViaAlias[k] {
				alias = true
			} else {
				direct = true
			}
		}
	}
	if set {
		d = append(d, "dependency-set")
	}
	if direct {
		d = append(d, "dependency-output")
	}
	if alias {
		d = append(d, "dependency-output-through-alias")
	}
	if len(d) == 0 {
		return "diff=none"
	}
	return "diff=" + strings.Join(d, "+")
}

// HistOp is one decoded history operation (for samples / replay files).
type HistOp struct {
	Op    string    `json:"op"`
	Edit  *Edit     `json:"edit,omitempty"`
	Req   *BuildReq `json:"req,omitempty"`
	Opts  *InvOpts  `json:"opts,omitempty"`
	Note  string    `json:"note,omitempty"`
	Exit  *int      `json:"exit,omitempty"`
	Execd []string  `json:"executed,omitempty"`
}

type wbCase struct {
	Mode     string    `json:"mode"`
	Features []string  `json:"features"`
	Universe *Universe `json:"universe"`
	History  []HistOp  `json:"history"`
}

var allFeatures = []string{"alias", "dirs", "bin", "tags", "fingerprint", "platforms", "tests", "checks", "fail", "timeouts", "edit-outs", "edit-deps", "rootpkg", "wsmut", "taint", "nocache-build", "extfail", "twins", "mirror", "testonly", "flatnames", "trapterm", "nonhermetic"}

func (w *wbuild) Name() string { return "wbuild" }

func init() {
	worldRegistry["wbuild"] = func(params map[string]string) func() World {
		return func() World {
			mt := 6
			if v, ok := params["max_targets"]; ok {
				mt, _ = strconv.Atoi(v)
			}
			wb := &wbuild{g: genCfg{MaxTargets: mt, Features: map[string]bool{}}, mode: params["mode"], focus: params["focus"], load: params["load"]}
			wb.long = params["long"] == "1"
			wb.alwaysDamage = params["damage"] == "1"
			wb.contend = params["contend"] == "1"
			if f := params["force"]; f != "" {
				wb.force = strings.Split(f, "+")
			}
			wb.sweepInv, _ = strconv.Atoi(params["sweep_inv"])
			wb.sweepOp, _ = strconv.Atoi(params["sweep_op"])
			return wb
		}
	}
}

var reWsPrefix = regexp.MustCompile(`[0-9a-f]{16}-ws`)
var reSelected = regexp.MustCompile(`Selected (\d+) targets?`)

func (w *wbuild) Drive(s *simrt.Sched, out *RunResult) {
	w.s, w.c = s, s.C
	c := w.c
	w.base = scratchBase()
	os.MkdirAll(w.base, 0755)
	defer os.RemoveAll(w.base)
	simos.Reset()
	simos.ResetTemp()
	simexec.H = w.handler
	defer func() { simexec.H = nil }()

	// swarm: each feature is enabled per run
	var feats []string
	for _, f := range allFeatures {
		if c.Choose(2, "feature:"+f) == 1 {
			w.g.Features[f] = true
			feats = append(feats, f)
		}
	}
	if only := os.Getenv("SIM_ONLY_FEATURES"); only != "" {
		w.g.Features = map[string]bool{}
		feats = nil
		for _, f := range strings.Split(only, "+") {
			w.g.Features[f] = true
			feats = append(feats, f)
		}
	}
	// force=<f1+f2>: features a job concentrates on are always enabled (the rest stays swarm-random)
	for _, f := range w.force {
		if !w.g.Features[f] {
			w.g.Features[f] = true
			feats = append(feats, f)
		}
	}
	if w.mode != "remote" && w.mode != "faults" {
		// non-hermetic commands make "the restored bytes are those of the last recorded execution"
		// observable; that is a clause about the cache layer (the write-through mirror, C08; the
		// local cache after a loss, C07), not about incremental == clean (C01)
		delete(w.g.Features, "nonhermetic")
	}
	if w.mode == "twin" {
		// the two machines share the external world: commands must not change it, and
		// cancellation (fail-fast) makes the executed sets legitimately differ
		for _, f := range []string{"checks", "extfail", "nocache-build"} {
			delete(w.g.Features, f)
		}
	}
	u := genUniverse(c, w.g)
	cs := &wbCase{Mode: w.mode, Features: feats, Universe: u.Clone()}
	out.Decoded = cs
	if w.mode == "remote" {
		w.U = u
		w.driveRemote(s, out, u, cs, feats)
		return
	}
	m := w.newMachine("A")
	w.U, w.M = u, m
	w.syncWorkspace(m, u)
	cm := newCacheModel()

	if w.mode == "faults" {
		w.setupFaults(m)
	}
	base := InvOpts{Workers: 1 + c.Choose(4, "workers"), LoadOutputs: "all", Hash: pick(c, "hash", "xxh3", "sha256"), EnableCache: true, Platform: "linux/amd64"}
	if w.mode == "minimal" || w.load == "minimal" {
		base.LoadOutputs = "minimal"
	}
	nops := 2 + c.Choose(5, "nops")
	if w.long {
		nops = 6 + c.Choose(9, "nops-long") // thorough tier: long histories over larger universes
	}
	var snapshots []*Universe
	shapeParts := []string{fmt.Sprint(len(u.Specs), len(u.Aliases), feats)}
	builds := 0
	var lastRes *InvResult
	doBuild1 := func(req BuildReq, opts InvOpts, note string) {
		ext0 := map[string]string{}
		for k, v := range w.U.Ext {
			ext0[k] = v
		}
		// a directory sitting where a file output belongs is not among the destination
		// states the properties name: such targets are left open (MAY re-execute)
		w.dirInWay = map[string]bool{}
		w.diskBefore = map[string]Listing{}
		for _, l := range w.U.Labels() {
			sp := w.U.Specs[l]
			w.diskBefore[l] = diskListing(m.WS, sp)
			for _, o := range sp.Outs {
				if o.Kind != "dir" {
					if st, err := os.Lstat(filepath.Join(m.WS, sp.Pkg, o.Path)); err == nil && st.IsDir() {
						w.dirInWay[l] = true
					}
				}
			}
		}
		var arm func(p *simrt.Proc)
		note2 := ""
		if fs := w.fs; fs != nil {
			fs.fired, fs.crashed, fs.sigStep, fs.sigObserved = 0, false, 0, 0
			span := fs.lastOps
			if span < 20 {
				span = 150
			}
			if w.focus == "sweep" {
				// deterministic crash placement (thorough C07): no drawn faults at all
				if w.sweepInv == w.inv+1 && w.sweepOp > 0 {
					k := w.sweepOp
					arm = func(p *simrt.Proc) { simos.PD(p).CrashAtOp = k }
					note2 = fmt.Sprintf("sweep: crash at fs-op %d", k)
				}
			} else if fs.crash && simos.Plan.Budget > 0 && chance(c, 1, 3, "arm-crash") {
				simos.Plan.Budget--
				k := 1 + c.Choose(span+span/5, "crash-op")
				arm = func(p *simrt.Proc) { simos.PD(p).CrashAtOp = k }
				note2 = fmt.Sprintf("crash armed at fs-op %d", k)
			} else if fs.signal && simos.Plan.Budget > 0 && chance(c, 1, 3, "arm-signal") {
				simos.Plan.Budget--
				stepSpan := fs.lastSteps
				if stepSpan < 50 {
					stepSpan = 600
				}
				at := s.Steps() + 1 + c.Choose(stepSpan+stepSpan/5, "signal-step")
				note2 = fmt.Sprintf("SIGINT armed at step %d", at)
				var target *simrt.Proc
				arm = func(p *simrt.Proc) { target = p }
				s.OnStep = func(step int) {
					if step >= at && fs.sigStep == 0 && target != nil && !target.Dead() {
						fs.sigStep = step
						fs.sigSimMS = s.SimElapsed().Milliseconds()
						simrt.Fault("signal")
						if !simos.Deliver(target, os.Interrupt) {
							s.Crash(target) // no handler installed yet: default action
						}
					}
				}
				s.OnTaskEnd = func(t *simrt.Task) {
					if fs.sigStep != 0 && fs.sigObserved == 0 && strings.Contains(t.Origin, "console/cmd_setup.go") {
						fs.sigObserved = s.Steps()
					}
				}
			}
		}
		res := w.invoke(m, req, opts, arm)
		s.OnStep, s.OnTaskEnd = nil, nil
		builds++
		if fs := w.fs; fs != nil {
			if res.Cause == "crash" {
				fs.crashed = true
			}
			if !fs.crashed && fs.sigStep == 0 {
				fs.lastSteps = res.Steps
				fs.lastOps = res.Ops
			}
		}
		if note2 != "" {
			note = strings.TrimSpace(note + " " + note2)
		}
		h := HistOp{Op: req.Kind, Req: &req, Opts: &opts, Note: note, Exit: &res.ExitCode}
		for _, e := range res.Events {
			if e.Kind == "cmd" {
				h.Execd = append(h.Execd, e.Label)
			}
		}
		if res.Cause != "return" && res.Cause != "exit" {
			h.Note = strings.TrimSpace(h.Note + " cause=" + res.Cause)
		}
		if w.mode == "twin" {
			h.Note = strings.TrimSpace(h.Note + " machine=" + m.Name)
		}
		lastRes = res
		for len(w.opsPerInv) < res.N {
			w.opsPerInv = append(w.opsPerInv, 0) // invocations that are not builds (taint) are not swept
		}
		w.opsPerInv[res.N-1] = res.Ops
		cs.History = append(cs.History, h)
		w.checkBuild(res, req, opts, cm, ext0)
		w.auditCache(m, fmt.Sprintf("after invocation %d", res.N))
		shapeParts = append(shapeParts, fmt.Sprint(req.Patterns, len(h.Execd), res.ExitCode))
	}
	// twin worlds (C15): machine B runs the same history with load_outputs=minimal
	var mB *Machine
	var cmB *cacheModel
	if w.mode == "twin" {
		mB = w.newMachine("B")
		w.syncWorkspace(mB, u)
		cmB = newCacheModel()
	}
	doBuild := func(req BuildReq, opts InvOpts, note string) {
		doBuild1(req, opts, note)
		if mB == nil || len(s.Violations) > 0 {
			return
		}
		resA := lastRes
		dirInWayA := w.dirInWay
		mA, cmA := m, cm
		m, cm = mB, cmB
		optsB := opts
		optsB.LoadOutputs = "minimal"
		doBuild1(req, optsB, note)
		resB := lastRes
		m, cm = mA, cmA
		w.mu.Lock()
		w.M = mA
		w.mu.Unlock()
		for l := range dirInWayA {
			w.dirInWay[l] = true // compareTwins: left open on either machine
		}
		w.compareTwins(resA, resB, req, mA, mB)
	}
	afterDrift := false
	for i := 0; i < nops && len(s.Violations) == 0; i++ {
		kinds := []string{"edit", "build", "edit", "build"}
		if w.g.Features["wsmut"] {
			kinds = append(kinds, "wsmut")
		}
		if w.g.Features["taint"] {
			kinds = append(kinds, "taint")
		}
		if w.fs != nil && w.fs.damage {
			kinds = append(kinds, "damage")
		}
		var binTargets []string
		if w.g.Features["bin"] && mB == nil {
			for _, l := range w.U.Labels() {
				sp := w.U.Specs[l]
				for _, o := range sp.Outs {
					if o.Kind == "bin" && !sp.IsTest() && platformOK(sp, base.Platform, false) {
						binTargets = append(binTargets, l)
					}
				}
			}
			if len(binTargets) > 0 {
				kinds = append(kinds, "run")
			}
		}
		switch kinds[c.Choose(len(kinds), "op")] {
		case "run":
			// `grog run //label`: builds (or restores) the target, then executes its binary output
			l := binTargets[c.Choose(len(binTargets), "run-target")]
			req := BuildReq{Kind: "run", Patterns: []string{l}}
			w.mu.Lock()
			w.ranBin = nil
			w.mu.Unlock()
			doBuild(req, base, "grog run")
			res := lastRes
			if res != nil && len(s.Violations) == 0 && !(w.fs != nil && (w.fs.fired > 0 || w.fs.crashed || w.fs.sigStep != 0)) {
				sp := w.U.Specs[l]
				binPath := ""
				for _, o := range sp.Outs {
					if o.Kind == "bin" {
						binPath = filepath.Join(m.WS, sp.Pkg, o.Path)
					}
				}
				w.mu.Lock()
				ran := false
				for _, p := range w.ranBin {
					if p == binPath {
						ran = true
					}
				}
				w.mu.Unlock()
				if res.ExitCode == 0 && !ran {
					s.Report(simrt.Violation{Prop: "C06", Class: "binary-not-run", Signature: "grog-run", Detail: "grog run " + l + " exited 0 but the binary output was not executed\n" + tailStr(res.Log, 8)})
				}
				if res.ExitCode != 0 && strings.Contains(res.Log, "permission denied") {
					s.Report(simrt.Violation{Prop: "C06", Class: "restored-binary-not-runnable", Signature: "grog-run", Detail: "grog run " + l + ": the binary output could not be executed (permission denied)\n" + tailStr(res.Log, 8)})
				}
			}
		case "damage":
			drift := w.g.Features["extfail"] && chance(c, 1, 2, "drift-after-damage")
			if drift && chance(c, 1, 2, "drift-warm-up") {
				// make sure there is something to lose: everything is built and cached first
				doBuild(BuildReq{Kind: "build", Patterns: []string{"//..."}}, base, "before the loss")
				if len(s.Violations) > 0 {
					break
				}
			}
			note := w.damageCache(m, drift)
			for k := range cm.strict {
				cm.unc[k] = true
			}
			for k := range cm.loose {
				cm.uncL[k] = true
			}
			cs.History = append(cs.History, HistOp{Op: "cache-damage", Note: note})
			shapeParts = append(shapeParts, "damage")
			if drift {
				// place the interesting follow-up right after the loss: a restored dependency whose
				// blobs may be gone now misbehaves when executed again (slow beyond its timeout /
				// failing), and one of its dependants changed, so that it needs those outputs
				var cands [][2]string
				for _, l := range w.U.Labels() {
					for _, d := range w.U.DepTargets(w.U.Specs[l]) {
						if len(w.U.Specs[d].Outs) > 0 {
							cands = append(cands, [2]string{d, l})
						}
					}
				}
				var timed [][2]string
				for _, pr := range cands {
					if w.U.Specs[pr[0]].TimeoutMS > 0 {
						timed = append(timed, pr)
					}
				}
				if len(timed) > 0 && chance(c, 3, 4, "drift-timed") {
					cands = timed
				}
				// ... and dependants that need several dependencies back at once
				var multi [][2]string
				for _, pr := range cands {
					n := 0
					for _, d := range w.U.DepTargets(w.U.Specs[pr[1]]) {
						if len(w.U.Specs[d].Outs) > 0 {
							n++
						}
					}
					if n >= 2 {
						multi = append(multi, pr)
					}
				}
				if len(multi) > 0 && chance(c, 3, 4, "drift-multi") {
					cands = multi
					simrt.Probe("drift-after-damage:dependant-needs-several-dependencies")
				}
				// ... and triangles: the dependant also depends directly on a dependency of the lost
				// dependency (re-running the latter needs the former while the dependant holds it)
				var tri [][2]string
				for _, pr := range cands {
					for _, g := range w.U.DepTargets(w.U.Specs[pr[1]]) {
						if g != pr[0] && w.U.dependsOn(pr[0], g) && len(w.U.Specs[g].Outs) > 0 {
							tri = append(tri, pr)
							break
						}
					}
				}
				if len(tri) > 0 && chance(c, 3, 4, "drift-triangle") {
					cands = tri
					simrt.Probe("drift-after-damage:triangle")
				}
				if len(cands) > 0 {
					pr := cands[c.Choose(len(cands), "drift-pair")]
					snapshots = append(snapshots, w.U.Clone())
					nu := w.U.Clone()
					kind := "exit"
					if nu.Specs[pr[0]].TimeoutMS > 0 {
						kind = "slow"
					}
					nu.Ext["fail_"+pr[0]] = kind
					simrt.Probe("drift-after-damage:" + kind)
					afterDrift = true
					nu.Specs[pr[1]].Ver++
					ed := Edit{Op: "drift-after-damage", Target: pr[0], Detail: kind + "; command of " + pr[1] + " edited"}
					w.mu.Lock()
					w.U = nu
					w.mu.Unlock()
					w.syncWorkspace(m, nu)
					cs.History = append(cs.History, HistOp{Op: "edit", Edit: &ed})
					shapeParts = append(shapeParts, ed.Op)
					if chance(c, 1, 2, "drift-build-now") {
						// ... and the build that has to bring the lost dependencies back follows at once
						opts := base
						opts.Workers = []int{1, 1, 2, 4}[c.Choose(4, "workers")]
						afterDrift = false
						doBuild(BuildReq{Kind: "build", Patterns: []string{"//..."}}, opts, "after the loss")
					}
				}
			}
		case "edit":
			snapshots = append(snapshots, w.U.Clone())
			nu, ed := genEdit(c, w.U, w.g, snapshots)
			if ed.Op == "toggle-nocache" && ed.Target != "" {
				if w.toggled == nil {
					w.toggled = map[string]bool{}
				}
				w.toggled[ed.Target] = true
			}
			w.mu.Lock()
			w.U = nu
			w.mu.Unlock()
			w.syncWorkspace(m, nu)
			if mB != nil {
				w.syncWorkspace(mB, nu)
			}
			cs.History = append(cs.History, HistOp{Op: "edit", Edit: &ed})
			shapeParts = append(shapeParts, ed.Op)
		case "build":
			opts := base
			opts.Workers = 1 + c.Choose(4, "workers")
			if afterDrift {
				// the build that has to bring several lost dependencies back: tightest worker bound
				afterDrift = false
				if chance(c, 1, 2, "one-worker-after-drift") {
					opts.Workers = 1
				}
			}
			if w.g.Features["fail"] && w.mode != "twin" && chance(c, 1, 4, "failfast") {
				opts.FailFast = true
			}
			if w.g.Features["nocache-build"] && chance(c, 1, 6, "disable-cache") {
				opts.EnableCache = false
			}
			if w.g.Features["platforms"] && w.mode != "twin" && chance(c, 1, 4, "other-platform") {
				// the same checkout and cache used from another host platform: results are keyed
				// by platform unless the target is tagged multiplatform-cache
				opts.Platform = "darwin/arm64"
			}
			doBuild(genBuildReq(c, w.U, w.g), opts, "")
		case "wsmut":
			note := w.mutateWorkspace(m)
			if mB != nil {
				w.replayMutation(mB)
			}
			cs.History = append(cs.History, HistOp{Op: "wsmut", Note: note})
			shapeParts = append(shapeParts, "wsmut")
			if note == "fresh-checkout" && chance(c, 2, 3, "edit-after-fresh-checkout") {
				// ... and a target whose dependencies have to be restored is edited, so that its
				// command runs in the build that restores them (directory outputs preferred)
				var cands, withDir []string
				for _, l := range w.U.Labels() {
					for _, d := range w.U.DepTargets(w.U.Specs[l]) {
						for _, o := range w.U.Specs[d].Outs {
							cands = append(cands, l)
							if o.Kind == "dir" {
								withDir = append(withDir, l)
							}
						}
					}
				}
				if len(withDir) > 0 {
					cands = withDir
				}
				if len(cands) > 0 {
					l := cands[c.Choose(len(cands), "edit-after-fresh-checkout-target")]
					snapshots = append(snapshots, w.U.Clone())
					nu := w.U.Clone()
					nu.Specs[l].Ver++
					ed := Edit{Op: "command", Target: l, Detail: "right after the fresh checkout"}
					w.mu.Lock()
					w.U = nu
					w.mu.Unlock()
					w.syncWorkspace(m, nu)
					if mB != nil {
						w.syncWorkspace(mB, nu)
					}
					cs.History = append(cs.History, HistOp{Op: "edit", Edit: &ed})
					shapeParts = append(shapeParts, "command")
				}
			}
		case "taint":
			labels := w.U.Labels()
			l := labels[c.Choose(len(labels), "taint-target")]
			req := BuildReq{Kind: "taint", Patterns: []string{l}}
			if w.fs != nil {
				w.fs.fired = 0
			}
			res := w.invoke(m, req, base, nil)
			if mB != nil {
				w.invoke(mB, req, base, nil)
				cmB.taint[l] = true
				if !platformOK(w.U.Specs[l], base.Platform, false) {
					cmB.taintUnc[l] = true
				}
			}
			cs.History = append(cs.History, HistOp{Op: "taint", Req: &req, Exit: &res.ExitCode})
			if w.g.Features["extfail"] && mB == nil && chance(c, 1, 3, "forced-rerun-will-fail-late") {
				// the forced re-run is going to fail AFTER its command exited 0 (missing output /
				// failing check): the taint must survive that build
				nu := w.U.Clone()
				kind := pick(c, "late-fail-kind", "omit", "break")
				nu.Ext["fail_"+l] = kind
				ed := Edit{Op: "ext-fail", Target: l, Detail: kind + " (right after the taint)"}
				w.mu.Lock()
				w.U = nu
				w.mu.Unlock()
				cs.History = append(cs.History, HistOp{Op: "edit", Edit: &ed})
			}
			if w.fs != nil && w.fs.fired > 0 {
				// a fault hit the taint command: the taint may or may not have been recorded
				cm.taintUnc[l] = true
			} else if res.ExitCode != 0 {
				s.Report(simrt.Violation{Prop: "C13", Class: "taint-failed", Signature: "exit", Detail: "grog taint " + l + " exited " + fmt.Sprint(res.ExitCode) + "\n" + tailStr(res.Log, 10)})
			}
			cm.taint[l] = true
			if !platformOK(w.U.Specs[l], base.Platform, false) {
				// whether `grog taint` reaches a target that does not match the host platform is
				// not documented: left open
				cm.taintUnc[l] = true
			}
			shapeParts = append(shapeParts, "taint")
		}
	}
	// every history ends with a full build and an identical rebuild that must run nothing
	if len(s.Violations) == 0 {
		all := BuildReq{Kind: "build", Patterns: []string{"//..."}}
		doBuild(all, base, "final")
		if len(s.Violations) == 0 {
			doBuild(all, base, "no-op rebuild")
		}
	}
	out.Shape = hashStr(shapeParts...)
	out.Nontrivial = builds >= 2
	out.StateHash = w.stateHash(m)
	out.OpsPerInv = w.opsPerInv
}

func tailStr(s string, n int) string {
	lines := strings.Split(strings.TrimRight(s, "\n"), "\n")
	if len(lines) > n {
		lines = lines[len(lines)-n:]
	}
	return strings.Join(lines, "\n")
}

// stateHash summarises cache + workspace at the end of a run.
func (w *wbuild) stateHash(m *Machine) string {
	var parts []string
	filepath.Walk(filepath.Join(w.base, m.Name), func(p string, info os.FileInfo, err error) error {
		if err == nil && !info.IsDir() {
			rel, _ := filepath.Rel(w.base, p)
			if strings.Contains(rel, "/logs/") {
				return nil
			}
			parts = append(parts, reWsPrefix.ReplaceAllString(rel, "WS"), fmt.Sprint(info.Size()))
		}
		return nil
	})
	return hashStr(parts...)
}

// mutateWorkspace damages output paths of a target between two builds.
func (w *wbuild) mutateWorkspace(m *Machine) string {
	c := w.c
	var cands []string
	for _, l := range w.U.Labels() {
		if len(w.U.Specs[l].Outs) > 0 {
			cands = append(cands, l)
		}
	}
	if len(cands) == 0 {
		return "none"
	}
	if c.Choose(6, "wsmut-fresh-checkout") == 5 {
		// a fresh checkout: no output of any target is in the workspace, the cache is warm
		for _, l := range w.U.Labels() {
			removeOutputs(m.WS, w.U.Specs[l])
		}
		w.lastMut, w.lastMutKind = nil, "fresh-checkout"
		return "fresh-checkout"
	}
	l := cands[c.Choose(len(cands), "wsmut-target")]
	sp := w.U.Specs[l]
	o := sp.Outs[c.Choose(len(sp.Outs), "wsmut-out")]
	abs := filepath.Join(m.WS, sp.Pkg, o.Path)
	w.lastMut = func(m2 *Machine) (string, OutSpec, string) {
		return filepath.Join(m2.WS, sp.Pkg, o.Path), o, filepath.Join(m2.WS, sp.Pkg)
	}
	kind := pick(c, "wsmut-kind", "delete", "delete-parent", "modify", "truncate", "extra-file", "swap-kind", "modify-longer", "replace-other-mode", "entry-to-symlink")
	if kind == "swap-kind" && o.Kind != "dir" {
		kind = "delete" // the property names "a file where a directory should be", not the reverse
	}
	w.lastMutKind = kind
	applyMutation(kind, abs, o, filepath.Join(m.WS, sp.Pkg))
	return kind + " " + l + " " + o.Path
}

// replayMutation applies the last workspace mutation to another machine's checkout.
func (w *wbuild) replayMutation(m2 *Machine) {
	if w.lastMutKind == "fresh-checkout" {
		for _, l := range w.U.Labels() {
			removeOutputs(m2.WS, w.U.Specs[l])
		}
		return
	}
	if w.lastMut == nil || (w.lastMutKind != "delete" && w.lastMutKind != "delete-parent") {
		// content tampering is not replayed on the minimal machine: grog does not load outputs
		// there, so the tampered bytes would (rightly) stay and are not "materialised" outputs
		return
	}
	abs, o, pkgDir := w.lastMut(m2)
	if _, err := os.Lstat(abs); err != nil {
		return // not materialised on this machine
	}
	applyMutation(w.lastMutKind, abs, o, pkgDir)
}

func applyMutation(kind, abs string, o OutSpec, pkgDir string) {
	switch kind {
	case "delete":
		os.RemoveAll(abs)
	case "delete-parent":
		if filepath.Dir(abs) != pkgDir {
			os.RemoveAll(filepath.Dir(abs))
		} else {
			os.RemoveAll(abs)
		}
	case "modify":
		if o.Kind == "dir" {
			os.WriteFile(filepath.Join(abs, "f0.dat"), []byte("tampered"), 0644)
		} else {
			os.WriteFile(abs, []byte("tampered"), 0644)
		}
	case "entry-to-symlink":
		// a regular file inside a directory output was replaced by a symbolic link to a file
		// that lives elsewhere in the checkout (restoring must replace the link, never write
		// through it)
		if o.Kind != "dir" {
			os.RemoveAll(abs)
			break
		}
		stray := filepath.Join(pkgDir, ".stray-file")
		os.WriteFile(stray, []byte("not an output\n"), 0644)
		for _, f := range []string{"f0.dat", "f1.dat", "f2.dat", "f3.dat", "e0.dat"} {
			p := filepath.Join(abs, f)
			if st, err := os.Lstat(p); err == nil && st.Mode().IsRegular() {
				os.Remove(p)
				os.Symlink(stray, p)
				break
			}
		}
	case "replace-other-mode":
		// a stale file with other content AND the other executable bit sits at the output path
		if o.Kind == "dir" {
			for _, f := range []string{"f0.dat", "f1.dat", "f2.dat"} {
				p := filepath.Join(abs, f)
				if st, err := os.Lstat(p); err == nil && st.Mode().IsRegular() {
					os.Remove(p)
					os.WriteFile(p, []byte("stale, other mode"), 0644^(st.Mode().Perm()&0111)|(^st.Mode().Perm()&0111))
				}
			}
		} else {
			mode := os.FileMode(0755)
			if st, err := os.Lstat(abs); err == nil && st.Mode()&0111 != 0 {
				mode = 0644
			}
			os.Remove(abs)
			os.WriteFile(abs, []byte("stale, other mode"), mode)
			os.Chmod(abs, mode)
		}
	case "modify-longer":
		long := strings.Repeat("a much longer stale file than any output; ", 6)
		if o.Kind == "dir" {
			os.WriteFile(filepath.Join(abs, "f0.dat"), []byte(long), 0644)
			os.WriteFile(filepath.Join(abs, "f1.dat"), []byte(long), 0755)
		} else {
			os.WriteFile(abs, []byte(long), 0644)
		}
	case "truncate":
		if o.Kind != "dir" {
			os.Truncate(abs, 1)
		} else {
			os.RemoveAll(abs)
			os.MkdirAll(abs, 0755)
		}
	case "extra-file":
		if o.Kind == "dir" {
			os.MkdirAll(filepath.Join(abs, "stale"), 0755)
			os.WriteFile(filepath.Join(abs, "stale", "old.dat"), []byte("old"), 0644)
		} else {
			os.WriteFile(abs+".orig", []byte("old"), 0644)
		}
	case "swap-kind":
		os.RemoveAll(abs)
		if o.Kind == "dir" {
			os.WriteFile(abs, []byte("i am a file"), 0644)
		} else {
			os.MkdirAll(filepath.Join(abs, "sub"), 0755)
		}
	}
}

// compareTwins is the C15 oracle: mode minimal must succeed or fail exactly as mode all and
// execute the same commands; whatever it materialises must have the same bytes.
func (w *wbuild) compareTwins(a, b *InvResult, req BuildReq, mA, mB *Machine) {
	if a == nil || b == nil || w.s.Aborted() {
		return
	}
	report := func(class, sig, detail string) {
		w.s.Report(simrt.Violation{Prop: "C15", Class: class, Signature: sig, Detail: fmt.Sprintf("%s %v: %s\n--- log (all)\n%s\n--- log (minimal)\n%s", req.Kind, req.Patterns, detail, tailStr(a.Log, 8), tailStr(b.Log, 10))})
	}
	if (a.ExitCode == 0) != (b.ExitCode == 0) {
		report("exit-status-differs", "exit", fmt.Sprintf("load_outputs=all exited %d, load_outputs=minimal exited %d", a.ExitCode, b.ExitCode))
		return
	}
	count := func(r *InvResult) map[string]int {
		m := map[string]int{}
		for _, e := range r.Events {
			if e.Kind == "cmd" {
				m[e.Label]++
			}
		}
		return m
	}
	ca, cb := count(a), count(b)
	var diff []string
	for _, l := range w.U.Labels() {
		if w.dirInWay[l] {
			continue // a directory sat where a file output belongs: restoring over it is left open (MAY re-execute)
		}
		if ca[l] != cb[l] {
			diff = append(diff, fmt.Sprintf("%s: all=%d minimal=%d", l, ca[l], cb[l]))
		}
	}
	if len(diff) > 0 && a.ExitCode == 0 {
		report("executed-set-differs", "multiset", "commands executed differ: "+strings.Join(diff, "; "))
	}
	if a.ExitCode != 0 {
		return
	}
	sel := w.U.Select(req, "linux/amd64")
	for _, l := range w.U.Labels() {
		sp := w.U.Specs[l]
		// "materialised" = written by this build: executed here, or a direct dependency of an
		// executed target (those must have been loaded). Outputs left over from earlier
		// builds are not touched by a cache hit in minimal mode, by design.
		touched := cb[l] > 0
		for _, x := range w.U.Labels() {
			if cb[x] > 0 {
				for _, d := range w.U.DepTargets(w.U.Specs[x]) {
					if d == l {
						touched = true
					}
				}
			}
		}
		if len(sp.Outs) == 0 || !sel.Must[l] || !touched {
			continue
		}
		la, lb := diskListing(mA.WS, sp), diskListing(mB.WS, sp)
		am := map[string]Entry{}
		for _, e := range la {
			am[strings.TrimPrefix(e.Path, "")] = e
		}
		for _, e := range lb {
			if e.Kind == "missing" {
				continue
			}
			if ae, ok := am[e.Path]; ok && ae.Kind != "missing" && ae != e {
				report("materialised-output-differs", "bytes", fmt.Sprintf("%s: %s is {%s exec=%v %q} under minimal but {%s exec=%v %q} under all", l, e.Path, e.Kind, e.Exec, short(e.Data), ae.Kind, ae.Exec, short(ae.Data)))
				break
			}
		}
	}
}

// checkBuild compares one invocation with the reference model and updates the model.
func (w *wbuild) checkBuild(res *InvResult, req BuildReq, opts InvOpts, cm *cacheModel, ext0 map[string]string) {
	w.recordedNow = map[string]bool{}
	if res.ExitCode != 0 || res.Cause != "return" && res.Cause != "exit" {
		cm.nhDirty = true
	}
	s := w.s
	u := w.U
	report := func(prop, class, sig, detail string) {
		if w.fs != nil && w.fs.sigStep != 0 && res.ExitCode == 0 && prop != "C18" {
			// an interrupted invocation that exits 0 claims a complete, successful build: whatever
			// contradicts that is first of all "exits non-zero on SIGINT" (C18)
			detail = fmt.Sprintf("SIGINT was delivered at step %d but grog exited 0; %s [%s/%s]", w.fs.sigStep, detail, prop, class)
			prop, class, sig = "C18", "interrupted-build-exited-zero", "incomplete-build"
		}
		s.Report(simrt.Violation{Prop: prop, Class: class, Signature: sig, Detail: fmt.Sprintf("invocation %d (%s %v, %+v): %s\n--- log tail\n%s", res.N, req.Kind, req.Patterns, opts, detail, tailStr(res.Log, 12))})
	}
	if res.Cause == "abort" || s.Aborted() {
		return
	}
	if w.contended {
		cm.mayAll = true
	}
	if cm.mayAll {
		// a second build ran in this workspace meanwhile (contend=1): which commands ran on whose
		// behalf and what reached the cache is not decidable per invocation; only the
		// run-level oracles stay on (mutual exclusion, hangs, panics, cache audit)
		return
	}
	ev := NewEval(u, opts.Platform)
	diskBefore := w.diskBefore
	isRun := req.Kind == "run"
	if isRun {
		req.Kind = "build"
	}
	sel := u.Select(req, opts.Platform)
	faulted, crashed, signalled := false, false, false
	if w.fs != nil {
		faulted, crashed, signalled = w.fs.fired > 0, w.fs.crashed, w.fs.sigStep != 0
	}
	if len(res.Events) == 0 && res.ExitCode == 0 && !crashed {
		simrt.Probe("build-executed-nothing")
	}
	if crashed {
		simrt.Probe("invocation-killed")
		// killed: whatever it executed may or may not have reached the cache, taints may or
		// may not have been consumed; the follow-up builds decide (C07: next build satisfies C01)
		for _, e := range res.Events {
			if e.Kind == "cmd" && u.Specs[e.Label] != nil {
				cm.markUnc(ev, e.Label)
				if cm.taint[e.Label] {
					cm.taintUnc[e.Label] = true
				}
			}
		}
		return
	}
	if signalled {
		fs := w.fs
		for _, e := range res.Events {
			if (e.Kind == "cmd" || e.Kind == "check") && fs.sigObserved != 0 && e.Start > fs.sigObserved {
				report("C18", "target-started-after-interrupt", "start-after-handler", fmt.Sprintf("%s started at step %d although the interrupt was delivered at step %d and the signal handler had finished at step %d", e.Label, e.Start, fs.sigStep, fs.sigObserved))
			}
		}
		for _, e := range res.Events {
			if (e.Kind == "cmd" || e.Kind == "check") && e.StartMS > fs.sigSimMS {
				report("C18", "target-started-after-interrupt", "sim-time", fmt.Sprintf("SIGINT was delivered at simulated t=%dms, but the command of %s was started at t=%dms", fs.sigSimMS, e.Label, e.StartMS))
			}
		}
		if len(res.Orphans) > 0 && !crashed {
			report("C18", "command-survived-the-interrupted-build", "orphan", fmt.Sprintf("SIGINT was delivered at simulated t=%dms and grog exited at t=%dms, but the shells of %v were still running and had not been killed", fs.sigSimMS, res.EndSimMS, res.Orphans))
		}
		if dt := res.EndSimMS - fs.sigSimMS; dt > 10000 {
			report("C18", "slow-exit-after-interrupt", "exit-time", fmt.Sprintf("the process ended %d ms (simulated) after SIGINT", dt))
		}
	}
	executed := map[string]int{}
	wrongDeps := map[string]string{}
	diskListingOf := map[string]map[string]string{}
	exitOf := map[string]int{}
	for _, e := range res.Events {
		if e.Kind != "cmd" {
			continue
		}
		executed[e.Label]++
		exitOf[e.Label] = e.Exit
		if e.WrongDeps != "" {
			wrongDeps[e.Label] = e.WrongDeps
			diskListingOf[e.Label] = e.wrongListings
		}
	}
	// ---- selection (C12)
	for l := range executed {
		if !sel.Must[l] && !sel.May[l] {
			report("C12", "unselected-target-executed", "executed", l+" is outside the pattern matches and their dependency closure but its command ran")
		}
	}
	if sel.MayError && res.ExitCode != 0 && len(executed) == 0 && strings.Contains(res.Log, "target selection failed") {
		return // selection through an alias refused: left open by the documentation
	}
	if sel.PlatformError {
		if res.ExitCode == 0 || len(executed) > 0 {
			report("C12", "platform-incompatible-dependency", "partial-build", fmt.Sprintf("a selected target depends on a platform-incompatible target; exit=%d executed=%v", res.ExitCode, executed))
		}
		return
	}
	if sel.Matched == 0 {
		if len(sel.May) == 0 && (res.ExitCode == 0 || len(executed) > 0) {
			report("C12", "nothing-matched", "exit", fmt.Sprintf("no target matches but exit=%d executed=%v", res.ExitCode, executed))
		}
		if len(sel.May) == 0 {
			return
		}
	}
	if mm := reSelected.FindStringSubmatch(res.Log); mm != nil {
		n, _ := strconv.Atoi(mm[1])
		lo := len(sel.Must)
		hi := lo + len(sel.May)
		if n < lo || n > hi {
			report("C12", "selection-count", "count", fmt.Sprintf("grog selected %d targets, the documented selection has %d (plus %d optional): must=%v", n, lo, len(sel.May), sortedKeys(sel.Must)))
		}
	}

	// ---- per target verdicts in dependency order
	// optional targets (reached only through an alias under filters) count as selected when
	// grog evidently included them
	roots := sortedKeys(sel.Must)
	for _, l := range sortedKeys(sel.May) {
		if executed[l] > 0 {
			roots = append(roots, l)
		}
	}
	order := u.Topo(roots)
	status := map[string]string{}
	var failedLabels []string
	anyFail := false
	extFail0 := map[string]string{}
	forcedNow := map[string]bool{}
	for _, l := range order {
		k := ext0["fail_"+l]
		if k == "omit" && len(u.Specs[l].Outs) == 0 || k == "break" && len(u.Specs[l].Checks) == 0 || k == "slow" && u.Specs[l].TimeoutMS == 0 {
			k = "exit"
		}
		extFail0[l] = k
	}
	taint0 := map[string]bool{}
	for k, v := range cm.taint {
		taint0[k] = v
	}
	unc0 := map[string]bool{}
	for k := range cm.unc {
		unc0[k] = true
	}
	// (before fix 0f... a cache-disabled / no-cache execution overwrote the stored result with an
	// output-less one; that is repaired, so such executions leave the cache model untouched)
	depClobbered := func(sp *Spec) bool { return false }
	type pend struct{ prop, class, sig, detail string }
	var pendingMust []pend
	for _, l := range order {
		sp := u.Specs[l]
		blocked := false
		for _, d := range u.DepTargets(sp) {
			if status[d] != "ok" {
				blocked = true
			}
		}
		if blocked {
			status[l] = "skipped"
			if executed[l] > 0 {
				if opts.LoadOutputs == "minimal" && (faulted || (w.fs != nil && w.fs.damaged)) {
					// minimal mode re-runs a restored dependency whose outputs cannot be loaded (here:
					// because of an injected fault / a lost blob) on behalf of ONE dependant; if that
					// re-run fails, only this dependant fails, the dependency's own node stays a cache
					// hit and its other dependants may proceed
					cm.markUnc(ev, l)
					if cm.taint[l] {
						cm.taintUnc[l] = true // it ran: its taint may have been consumed
					}
				} else {
					report("C05", "built-despite-failed-dependency", "wbuild", l+" executed although a dependency failed or was skipped")
				}
			}
			continue
		}
		checkFails := false
		for _, ck := range sp.Checks {
			want := ck.Expect
			if (want != "" && ext0[ck.Key] != want) || ext0[ck.Key] == "" || ext0[ck.Key+"#rc"] == "fail" {
				checkFails = true
			}
		}
		kS, kL := ev.Strict(l), ev.Loose(l)
		reason := ""
		switch {
		case !opts.EnableCache:
			reason = "cache-disabled"
		case sp.HasTag("no-cache"):
			reason = "no-cache"
		case cm.taint[l] && !cm.taintUnc[l] && !faulted:
			reason = "tainted"
		case checkFails:
			reason = "output-check-failing"
		case cm.unc[kS] || cm.uncL[kL] || cm.depUnc[kS] || depClobbered(sp) || w.dirInWay[l] || cm.taintUnc[l] || faulted || w.depToggled(u, sp):
		case !cm.strict[kS]:
			reason = "no-result-for-current-state"
		}
		verdict := "may"
		if reason != "" {
			verdict = "must"
		} else if !cm.unc[kS] && !cm.uncL[kL] && !cm.depUnc[kS] && !depClobbered(sp) && !w.dirInWay[l] && !cm.taintUnc[l] && !faulted && !w.depToggled(u, sp) && cm.loose[kL] {
			verdict = "mustnot"
		}
		// model outcome of an execution
		willFail := sp.Fail != "" || extFail0[l] != ""
		if len(sp.Checks) > 0 && (sp.Breaks || (!sp.Establish && checkFails)) {
			willFail = true
		}
		ran := executed[l] > 0
		switch verdict {
		case "must":
			if !ran {
				prop := map[string]string{"cache-disabled": "C13", "no-cache": "C13", "tainted": "C13", "output-check-failing": "C14", "no-result-for-current-state": "C01"}[reason]
				pendingMust = append(pendingMust, pend{prop, "not-executed", reason, fmt.Sprintf("%s must execute (%s) but its command did not run; exit=%d", l, reason, res.ExitCode)})
			}
		case "mustnot":
			if ran {
				prop, class := "C02", "unnecessary-execution"
				for _, d := range u.DepTargets(sp) {
					if forcedNow[d] {
						// C13: dependants of a force-executed target are invalidated only if its
						// outputs actually changed
						prop, class = "C13", "dependant-invalidated-without-output-change"
					}
				}
				report(prop, class, "cached-state-rebuilt", fmt.Sprintf("%s has a cached successful result for its current state, is not tainted/no-cache and has no failing check, but its command ran", l))
			}
		}
		if reason == "cache-disabled" || reason == "no-cache" || reason == "tainted" {
			forcedNow[l] = true
		}
		if executed[l] > 1 && !faulted && !(w.fs != nil && w.fs.damaged) {
			report("C03", "executed-twice", "load_outputs="+opts.LoadOutputs, fmt.Sprintf("%s executed %d times in one build", l, executed[l]))
		}
		if wd, ok := wrongDeps[l]; ok {
			// a dependency that was itself served stale is reported on that dependency (C01);
			// here only outputs that are missing or match no state the dependency ever produced
			var bad []string
			for _, d := range strings.Split(wd, ",") {
				got := diskListingOf[l][d]
				if _, stale := cm.produced[d][got]; !stale {
					bad = append(bad, d)
				}
			}
			if len(bad) > 0 {
				prop := "C03"
				if opts.LoadOutputs == "minimal" {
					prop = "C15"
				}
				report(prop, "dependency-outputs-not-current", "command-read-missing-or-partial", fmt.Sprintf("the command of %s found outputs of %v missing or different from anything that dependency ever produced", l, bad))
			}
		}
		if ran && verdict != "must" && opts.LoadOutputs == "minimal" {
			simrt.Probe("minimal-rerun-of-restored-dependency")
			if extFail0[l] == "slow" {
				simrt.Probe("minimal-rerun-of-restored-dependency-exceeding-timeout")
			}
		}
		if ran || verdict == "must" {
			if willFail {
				status[l] = "failed"
				anyFail = true
				failedLabels = append(failedLabels, l)
				continue
			}
			status[l] = "ok"
			if ran && exitOf[l] == 0 {
				if opts.EnableCache && !sp.HasTag("no-cache") {
					cm.strict[kS] = true
					cm.loose[kL] = true
					delete(cm.unc, kS)
					delete(cm.uncL, kL)
					w.recordedNow[kS] = true
					if sp.NonHermetic {
						e := ext0["epoch"]
						if faulted || (w.mode == "remote" && !opts.Remote) || w.depToggled(u, sp) {
							e = "?" // recorded under faults / only locally: what the remote holds is open
						}
						// (keyed by the loose key: grog's key covers output-less dependencies as well)
						cm.nhLast[kL] = e
						if w.remoteNH != nil {
							if opts.Remote && !faulted {
								w.remoteNH[kL] = e
							} else if opts.Remote {
								w.remoteNH[kL] = "?"
							}
						}
					}
					if depClobbered(sp) {
						cm.depUnc[kS] = true
					} else {
						delete(cm.depUnc, kS)
					}
				}
				if (faulted || signalled) && cm.taint[l] {
					cm.taintUnc[l] = true // the taint removal may have been hit by the fault / cut short by the interrupt
				} else if w.mode == "remote" && cm.taint[l] {
					// the marker lives in two stores (this machine's and the remote); which of them an
					// execution clears depends on the machine and on whether the remote was
					// configured for that invocation: left open for the rest of the history
					cm.taintUnc[l] = true
				} else {
					delete(cm.taint, l)
					delete(cm.taintUnc, l)
				}
				if cm.produced[l] == nil {
					cm.produced[l] = map[string]*semState{}
				}
				cm.produced[l][ev.Clean(l).String()] = ev.state(l)
			}
		} else {
			status[l] = "ok" // restored
			simrt.Probe("target-restored-not-executed")
			for _, d := range u.DepTargets(sp) {
				if executed[d] > 0 {
					simrt.Probe("early-cutoff-dependant-restored-after-dependency-executed")
				}
			}
			if w.dirInWay != nil && len(sp.Outs) > 0 {
				for _, e := range diskBefore[l] {
					if e.Kind == "missing" {
						simrt.Probe("restored-into-absent-destination")
						break
					}
				}
			}
		}
	}
	interrupted := (faulted || signalled) && res.ExitCode != 0
	if interrupted {
		// a fault or an interrupt failed the invocation: whatever ran may or may not have been
		// recorded; nothing was required to run to completion
		for _, l := range order {
			if executed[l] > 0 {
				cm.markUnc(ev, l)
				if cm.taint[l] {
					cm.taintUnc[l] = true
				}
			}
		}
		return
	}
	if opts.FailFast && anyFail && !faulted && !signalled && res.ExitCode != 0 {
		// (an invocation that exits 0 although a target fails is reported below as
		// failure-reported-as-success: grog saw no failure, so there was nothing to stop at)
		// Simulated time only advances when every task is blocked, so the walk is cancelled at
		// the very simulated instant the first failure happens, whatever the schedule: a command
		// forked at a later instant, or one that keeps running and completes after it, was not
		// stopped by fail-fast.
		tF := int64(-1)
		for _, e := range res.Events {
			if e.Kind == "cmd" && status[e.Label] == "failed" && e.EndMS > 0 || e.Kind == "cmd" && status[e.Label] == "failed" && e.End > 0 {
				// grog observes the failure when the command ends, or - for a command that exited
				// 0 - after the output checks that follow it (each takes CheckMS)
				at := e.EndMS
				if sp := u.Specs[e.Label]; sp != nil && e.Exit == 0 && !e.Killed {
					at += int64(len(sp.Checks) * sp.CheckMS)
				}
				if tF < 0 || at < tF {
					tF = at
				}
			}
		}
		if pl := simos.Plan; pl != nil && pl.SlowCopy > 0 {
			tF = -1 // slow disk: a missing output is only noticed while outputs are being written, at an unknown later instant
		}
		if tF >= 0 {
			for _, e := range res.Events {
				if e.Kind != "cmd" {
					continue
				}
				if e.StartMS > tF {
					report("C05", "target-started-after-first-failure", "fail-fast", fmt.Sprintf("fail-fast: the first failure happened at simulated t=%dms, but the command of %s was started at t=%dms", tF, e.Label, e.StartMS))
				} else if e.End > 0 && !e.Killed && e.EndMS > tF && e.Exit == 0 && status[e.Label] != "failed" {
					report("C05", "running-target-not-cancelled", "fail-fast", fmt.Sprintf("fail-fast: the first failure happened at simulated t=%dms, but the command of %s (started t=%dms) kept running and completed at t=%dms", tF, e.Label, e.StartMS, e.EndMS))
				}
			}
		}
	}
	if opts.FailFast && anyFail {
		// anything may have been cancelled: targets the model expected to run may not have
		// run, and results of targets that did run may or may not have reached the cache
		for _, l := range order {
			if executed[l] > 0 {
				cm.markUnc(ev, l)
				if taint0[l] {
					// ... and the removal of its taint marker may have been cut short as well
					cm.taint[l] = true
					cm.taintUnc[l] = true
				}
			}
		}
	} else {
		for _, p := range pendingMust {
			report(p.prop, p.class, p.sig, p.detail)
		}
	}
	// ---- exit status and failure summary (C05 / C14)
	if anyFail {
		if res.ExitCode == 0 {
			prop := "C05"
			for _, l := range failedLabels {
				if u.Specs[l].Fail == "omit" || u.Specs[l].Fail == "slow" || len(u.Specs[l].Checks) > 0 || extFail0[l] == "omit" || extFail0[l] == "break" || extFail0[l] == "slow" {
					prop = "C14"
				}
			}
			report(prop, "failure-reported-as-success", "exit-0", fmt.Sprintf("targets %v fail (exit status / timeout / missing output / output check) but grog exited 0", failedLabels))
		}
		for _, l := range failedLabels {
			if opts.LoadOutputs == "minimal" && (faulted || (w.fs != nil && w.fs.damaged)) {
				// a restored dependency that is re-run on behalf of a dependant (its outputs could
				// not be loaded) and fails is reported under the dependant's name
				continue
			}
			if !opts.FailFast && executed[l] > 0 && !strings.Contains(res.Log, l) {
				report("C05", "failed-target-not-named", "summary", l+" failed but is not named in the error summary")
			}
		}
		return
	}
	if res.ExitCode != 0 && isRun && opts.LoadOutputs == "minimal" && w.fs != nil && w.fs.damaged && strings.Contains(res.Log, "could not load the outputs of") {
		// `grog run` of a restored target whose own blob was lost: the build part succeeded
		// (nothing had to be materialised), running needs the binary. C07 speaks of the next
		// *build*; whether `grog run` re-executes or reports the loss is left open.
		simrt.Probe("grog-run-after-blob-loss-failed")
		return
	}
	if res.ExitCode != 0 {
		// whose clause it is: under load_outputs=minimal "a build succeeds or fails exactly as under
		// all" (C15); after a loss in the cache "the next build re-executes rather than failing" (C07)
		ufProp := "C05"
		if opts.LoadOutputs == "minimal" {
			ufProp = "C15"
		} else if w.fs != nil && w.fs.damaged {
			ufProp = "C07"
		}
		report(ufProp, "unexpected-failure", "exit-nonzero", fmt.Sprintf("no selected target fails in the model, but grog exited %d", res.ExitCode))
		return
	}
	// ---- outputs equal a clean build (C01 / C06), mode all only
	if opts.LoadOutputs != "all" {
		return
	}
	wrongOnDisk := map[string]bool{}
	for _, l := range order {
		sp := u.Specs[l]
		if status[l] != "ok" || len(sp.Outs) == 0 {
			continue
		}
		want := ev.Clean(l)
		got := diskListing(w.M.WS, sp)
		if sp.NonHermetic && executed[l] == 0 {
			// restored: the bytes of the execution whose result this machine holds (its own last
			// recording, else what the remote held when it was fetched)
			kS, kL := ev.Strict(l), ev.Loose(l)
			e := cm.nhLast[kL]
			if e == "" && w.remoteNH != nil {
				e = w.remoteNH[kL]
				if cm.nhDirty {
					e = "?" // an earlier, failed invocation of this machine may have fetched an older result
				}
				cm.nhLast[kL] = e
			}
			if e == "" || e == "?" || unc0[kS] || cm.unc[kS] || faulted || w.remoteLossy || w.depToggled(u, sp) {
				if e != "" {
					cm.nhLast[kL] = "?"
				}
				continue
			}
			want = ev.CleanAt(l, e)
			if got.String() != want.String() {
				nhProp := "C08"
				if w.mode != "remote" {
					nhProp = "C07"
				}
				report(nhProp, "restored-result-is-not-the-last-recorded-one", "non-hermetic", fmt.Sprintf("%s (same cache key, output depends on the undeclared epoch) was restored, but not with the bytes of the last execution recorded for this key (epoch %s; current epoch %s): a result written by a successful build must be what the mirror hands out afterwards: %s", l, e, ext0["epoch"], listingDiff(want, got)))
			} else {
				simrt.Probe("non-hermetic-target-restored-with-last-recorded-bytes")
			}
			continue
		}
		if got.String() == want.String() {
			continue
		}
		wrongOnDisk[l] = true
		upstream := false
		for _, d := range u.DepTargets(sp) {
			if wrongOnDisk[d] {
				upstream = true
			}
		}
		if upstream {
			continue // consequence of a dependency that is already reported
		}
		diff := listingDiff(want, got)
		switch {
		case executed[l] > 0:
			if _, ok := wrongDeps[l]; !ok {
				report("C01", "executed-output-differs", "harness?", fmt.Sprintf("%s was executed but its outputs differ from a clean build: %s", l, diff))
			}
		case cm.produced[l][got.String()] != nil:
			report("C01", "stale-restore", diffStates(ev.state(l), cm.produced[l][got.String()]), fmt.Sprintf("%s was not executed; its outputs equal what an EARLIER state of the target produced, not a clean build of the current sources: %s", l, diff))
		default:
			report("C06", "inexact-restore", diffClass(want, got), fmt.Sprintf("%s was restored from the cache but the result differs from what was cached: %s", l, diff))
			report("C01", "restored-output-differs-from-clean-build", diffClass(want, got), fmt.Sprintf("%s was not executed and its outputs differ from a clean build of the current sources: %s", l, diff))
			if w.mode == "remote" {
				report("C08", "wrong-content-restored", diffClass(want, got), fmt.Sprintf("with the remote cache configured %s was restored with outputs that differ from a clean build while the build reported success (a remote error or missing object must degrade to a miss or a reported failure): %s", l, diff))
			}
			if w.fs != nil {
				// fault runs: lost or unreadable cache data must lead to re-execution or a reported
				// failure, never to a successful build with corrupt / partial outputs (C07)
				report("C07", "corrupt-restore-after-cache-fault", diffClass(want, got), fmt.Sprintf("after cache faults / lost entries %s was restored with outputs that differ from a clean build while the build reported success: %s", l, diff))
			}
		}
	}
}

func diffClass(want, got Listing) string {
	wm := map[string]Entry{}
	for _, e := range want {
		wm[e.Path] = e
	}
	gm := map[string]Entry{}
	for _, e := range got {
		gm[e.Path] = e
	}
	var classes []string
	add := func(c string) {
		for _, x := range classes {
			if x == c {
				return
			}
		}
		classes = append(classes, c)
	}
	for p, we := range wm {
		ge, ok := gm[p]
		switch {
		case !ok || ge.Kind == "missing":
			add("missing-" + we.Kind)
		case ge.Kind != we.Kind:
			add("kind-" + we.Kind + "-vs-" + ge.Kind)
		case ge.Exec != we.Exec:
			add("exec-bit")
		case ge.Data != we.Data:
			add("content")
		case ge.Link != we.Link:
			add("link-target")
		}
	}
	for p := range gm {
		if _, ok := wm[p]; !ok {
			add("extra-entry")
		}
	}
	sort.Strings(classes)
	return strings.Join(classes, "+")
}

func listingDiff(want, got Listing) string {
	var b strings.Builder
	wm := map[string]Entry{}
	for _, e := range want {
		wm[e.Path] = e
	}
	gm := map[string]Entry{}
	for _, e := range got {
		gm[e.Path] = e
	}
	n := 0
	for _, e := range want {
		g, ok := gm[e.Path]
		if !ok {
			fmt.Fprintf(&b, "\n  %s: expected %s, absent", e.Path, e.Kind)
			n++
		} else if g != e {
			fmt.Fprintf(&b, "\n  %s: expected {%s exec=%v data=%q link=%q} got {%s exec=%v data=%q link=%q}", e.Path, e.Kind, e.Exec, short(e.Data), e.Link, g.Kind, g.Exec, short(g.Data), g.Link)
			n++
		}
		if n > 6 {
			break
		}
	}
	for _, e := range got {
		if _, ok := wm[e.Path]; !ok {
			fmt.Fprintf(&b, "\n  %s: unexpected %s", e.Path, e.Kind)
		}
	}
	return b.String()
}

func short(s string) string {
	if len(s) > 24 {
		return s[:24] + "…"
	}
	return s
}

// depToggled: the target or a (transitive) dependency had its no-cache tag toggled during this
// history. The output hash a dependant sees for an uncached dependency is computed differently
// from the one of a cached dependency, and a dependant without outputs hands the change on, so
// the builds after the toggle may re-execute anything downstream (DESIGN.md appendix A: left open).
func (w *wbuild) depToggled(u *Universe, sp *Spec) bool {
	if len(w.toggled) == 0 {
		return false
	}
	for _, d := range u.Topo([]string{sp.Label()}) {
		if w.toggled[d] {
			return true
		}
	}
	return false
}

func (cm *cacheModel) markUnc(ev *Eval, l string) {
	cm.unc[ev.Strict(l)] = true
	cm.uncL[ev.Loose(l)] = true
}
