#!/bin/bash
# Builds the controller and the rewriter offline and warms the Go build cache with one
# instrumented build of /repo.
set -e
cd "$(dirname "$0")"
export GOFLAGS=-mod=mod GOPROXY=off GOSUMDB=off GOTOOLCHAIN=local
export PATH=/opt/veriftools/go1.26.8/bin:$PATH
mkdir -p bin evidence replays
go1.26.8 build -o bin/simctl ./cmd/simctl
go1.26.8 build -o bin/simrewrite ./cmd/simrewrite
S=/dev/shm/verif-setup-$$
[ -d /dev/shm ] || S=${TMPDIR:-/var/tmp}/verif-setup-$$
./prepare.sh "$S" || { rm -rf "$S"; echo "setup: instrumented build failed"; exit 2; }
rm -rf "$S"
echo "setup ok"
