// simctl is the controller: it prepares an instrumented scratch copy of /repo's working
// tree, fans simulated runs out to worker processes, aggregates, minimises and confirms
// violations, matches them against known_findings.json and writes the evidence file.
//
//	simctl check <ID> [--tier quick|thorough]
//	simctl replay <file>
//	simctl selftest [--tier quick|thorough]
//
// exit 0: property held on everything explored (possibly KNOWN-FINDING lines)
// exit 1: "VIOLATION property=<id> replay=<path>"
// exit 2: infrastructure problem (never reported as a violation)
package main

import (
	"bufio"
	"encoding/json"
	"fmt"
	"os"
	"os/exec"
	"path/filepath"
	"sort"
	"strconv"
	"strings"
	"sync"
	"time"
)

var verifDir string

type Violation struct {
	Prop      string `json:"prop"`
	Class     string `json:"class"`
	Signature string `json:"signature"`
	Detail    string `json:"detail"`
	Step      int    `json:"step"`
	Infra     bool   `json:"infra,omitempty"`
}

type Choice struct {
	K string `json:"k"`
	N int    `json:"n"`
	V int    `json:"v"`
}

type RunResult struct {
	World      string          `json:"world"`
	Seed       uint64          `json:"seed"`
	Mode       string          `json:"mode,omitempty"`
	Violations []Violation     `json:"violations,omitempty"`
	Steps      int             `json:"steps"`
	Switches   int             `json:"switches"`
	SimMS      int64           `json:"sim_ms"`
	WallUS     int64           `json:"wall_us"`
	Faults     map[string]int  `json:"faults,omitempty"`
	Probes     map[string]int  `json:"probes,omitempty"`
	Shape      string          `json:"shape"`
	TraceHash  string          `json:"trace_hash"`
	Nontrivial bool            `json:"nontrivial"`
	NChoices   int             `json:"nchoices"`
	Choices    []Choice        `json:"choices,omitempty"`
	Decoded    json.RawMessage `json:"decoded,omitempty"`
	StateHash  string          `json:"state_hash,omitempty"`
	JobParams  string          `json:"-"`
	Sweep      string          `json:"sweep,omitempty"`
}

type ReplayFile struct {
	Version   int               `json:"version"`
	Property  string            `json:"property"`
	World     string            `json:"world"`
	Mode      string            `json:"mode,omitempty"`
	Params    map[string]string `json:"params,omitempty"`
	Seed      uint64            `json:"seed"`
	Choices   []int             `json:"choices"`
	Kinds     []string          `json:"kinds,omitempty"`
	Decoded   json.RawMessage   `json:"decoded,omitempty"`
	Violation *Violation        `json:"violation,omitempty"`
	TraceHash string            `json:"trace_hash,omitempty"`
	Trace     json.RawMessage   `json:"trace,omitempty"`
	Shrunk    bool              `json:"shrunk,omitempty"`
	Note      string            `json:"note,omitempty"`
}

// Job is one (world, mode, params) workload with a share of the time budget.
type Job struct {
	World  string
	Mode   string
	Params string
	Share  float64
	// Kind "" = seeded batch; "sweep" = crash sweep over every fs-operation index of the
	// builds of fault-free histories (worker mode sweep)
	Kind string
	// ThoroughOnly jobs are skipped in the quick tier (their share is given to the others)
	ThoroughOnly bool
}

// Plan describes how a property is checked.
type Plan struct {
	Jobs      []Job
	Level     string
	Rule      string
	Real      []string
	Stub      []string
	Assume    []string
	QuickS    int // seconds of simulation in the quick tier
	ThoroughS int
}

type Finding struct {
	Property  string `json:"property"`
	Class     string `json:"class"`
	Signature string `json:"signature"`
	Where     string `json:"where,omitempty"`
	What      string `json:"what,omitempty"`
	Example   string `json:"example_replay,omitempty"`
	Status    string `json:"status,omitempty"`
}

type KnownFindings struct {
	Findings []Finding        `json:"findings"`
	Fixed    []map[string]any `json:"fixed"`
}

func infra(format string, a ...any) {
	fmt.Printf("INFRA: "+format+"\n", a...)
	os.Exit(2)
}

func main() {
	exe, _ := os.Executable()
	verifDir = filepath.Dir(filepath.Dir(exe))
	if v := os.Getenv("VERIF_DIR"); v != "" {
		verifDir = v
	}
	if len(os.Args) < 2 {
		fmt.Println("usage: simctl check <ID> [--tier quick|thorough] | replay <file> | selftest")
		os.Exit(2)
	}
	tier := os.Getenv("VERIF_TIER")
	args := os.Args[2:]
	var pos []string
	for i := 0; i < len(args); i++ {
		switch {
		case args[i] == "--tier" && i+1 < len(args):
			tier = args[i+1]
			i++
		case strings.HasPrefix(args[i], "--tier="):
			tier = strings.TrimPrefix(args[i], "--tier=")
		default:
			pos = append(pos, args[i])
		}
	}
	if tier == "" {
		tier = "quick"
	}
	switch os.Args[1] {
	case "check":
		if len(pos) != 1 {
			infra("check needs a property id")
		}
		os.Exit(check(pos[0], tier))
	case "replay":
		if len(pos) != 1 {
			infra("replay needs a file")
		}
		os.Exit(replayCmd(pos[0]))
	case "selftest":
		os.Exit(selftest(tier))
	default:
		infra("unknown command %s", os.Args[1])
	}
}

func seedFromEnv() uint64 {
	if v := os.Getenv("VERIF_SEED"); v != "" {
		if n, err := strconv.ParseUint(v, 10, 64); err == nil {
			return n
		}
		if n, err := strconv.ParseInt(v, 10, 64); err == nil {
			return uint64(n)
		}
	}
	return 20261001
}

func workersFromEnv() int {
	if v := os.Getenv("VERIF_WORKERS"); v != "" {
		if n, err := strconv.Atoi(v); err == nil && n > 0 {
			return n
		}
	}
	return 16
}

// prepare builds the instrumented worker; returns scratch dir.
func prepare() string {
	base := "/dev/shm"
	if st, err := os.Stat(base); err != nil || !st.IsDir() {
		base = os.TempDir()
	}
	scratch := filepath.Join(base, fmt.Sprintf("verif-%d", os.Getpid()))
	os.RemoveAll(scratch)
	if err := os.MkdirAll(scratch, 0755); err != nil {
		infra("mkdir scratch: %v", err)
	}
	cmd := exec.Command(filepath.Join(verifDir, "prepare.sh"), scratch)
	cmd.Dir = verifDir
	out, err := cmd.CombinedOutput()
	if err != nil {
		os.Stdout.Write(out)
		os.RemoveAll(scratch)
		infra("prepare failed: %v", err)
	}
	return scratch
}

type workerOut struct {
	results   []RunResult
	crash     string // non-empty: worker died; text
	crashSeed uint64
	log       string
}

func runWorker(scratch string, env []string, outFile string, timeout time.Duration) (string, error) {
	cmd := exec.Command(filepath.Join(scratch, "simworker"), "-test.run", "^TestSim$", "-test.timeout", "0")
	cmd.Dir = scratch
	cmd.Env = append(os.Environ(), env...)
	gmp := "GOMAXPROCS=1"
	for _, e := range env {
		if strings.HasPrefix(e, "GOMAXPROCS=") {
			gmp = e
		}
	}
	cmd.Env = append(cmd.Env, "SIM_OUT="+outFile, gmp, "SIM_SCRATCH="+scratch)
	var buf strings.Builder
	cmd.Stdout = &buf
	cmd.Stderr = &buf
	if err := cmd.Start(); err != nil {
		return "", err
	}
	done := make(chan error, 1)
	go func() { done <- cmd.Wait() }()
	select {
	case err := <-done:
		return buf.String(), err
	case <-time.After(timeout):
		cmd.Process.Kill()
		<-done
		return buf.String(), fmt.Errorf("worker watchdog (%v) expired", timeout)
	}
}

func envOr(k, d string) string {
	if v := os.Getenv(k); v != "" {
		return v
	}
	return d
}

func readResults(path string) (results []RunResult, lastBegin uint64, pending bool, done bool) {
	f, err := os.Open(path)
	if err != nil {
		return
	}
	defer f.Close()
	sc := bufio.NewScanner(f)
	sc.Buffer(make([]byte, 1<<20), 1<<28)
	for sc.Scan() {
		line := sc.Bytes()
		if len(line) == 0 {
			continue
		}
		var probe map[string]json.RawMessage
		if json.Unmarshal(line, &probe) != nil {
			continue
		}
		if b, ok := probe["begin"]; ok {
			json.Unmarshal(b, &lastBegin)
			pending = true
			continue
		}
		if _, ok := probe["done"]; ok {
			done = true
			continue
		}
		var r RunResult
		if json.Unmarshal(line, &r) == nil && r.World != "" {
			results = append(results, r)
			pending = false
		}
	}
	return
}

type agg struct {
	evals       int
	distinct    map[string]bool
	faults      map[string]int
	probes      map[string]int
	simMS       int64
	steps       int64
	switches    int64
	samples     []json.RawMessage
	states      map[string]bool
	viol        map[string][]RunResult // key prop|class|signature
	perWorld    map[string]int
	sweepPoints int
	slowUS      int64
	slowSeed    uint64
	slowSteps   int
}

func newAgg() *agg {
	return &agg{distinct: map[string]bool{}, faults: map[string]int{}, probes: map[string]int{}, states: map[string]bool{}, viol: map[string][]RunResult{}, perWorld: map[string]int{}}
}

func (a *agg) add(r RunResult, params string) {
	a.evals++
	if r.Sweep != "" {
		a.perWorld[r.World+"/crash-sweep"]++
		if r.Sweep != "probe" {
			a.sweepPoints++
		}
	} else {
		a.perWorld[r.World+"/"+r.Mode]++
	}
	if r.Nontrivial && r.Switches > 0 {
		a.distinct[r.Shape+"|"+r.TraceHash] = true
	}
	for k, v := range r.Faults {
		a.faults[k] += v
	}
	for k, v := range r.Probes {
		a.probes[k] += v
	}
	a.simMS += r.SimMS
	if r.WallUS > a.slowUS {
		a.slowUS, a.slowSeed, a.slowSteps = r.WallUS, r.Seed, r.Steps
	}
	a.steps += int64(r.Steps)
	a.switches += int64(r.Switches)
	if r.StateHash != "" {
		a.states[r.StateHash] = true
	}
	if len(r.Decoded) > 0 && len(a.samples) < 4 && len(r.Decoded) < 6000 {
		s, _ := json.Marshal(map[string]any{"world": r.World, "mode": r.Mode, "seed": r.Seed, "steps": r.Steps, "switches": r.Switches, "case": r.Decoded})
		a.samples = append(a.samples, s)
	}
	for _, v := range r.Violations {
		key := v.Prop + "|" + v.Class + "|" + v.Signature
		if v.Infra {
			key = "INFRA|" + v.Class + "|" + v.Signature
		}
		if len(a.viol[key]) < 3 {
			rr := r
			rr.JobParams = params
			if r.Sweep != "" {
				// crash sweep: the crash position is part of the replay parameters
				var inv, op, n int
				rr.JobParams = params + ",mode=faults,focus=sweep"
				if _, err := fmt.Sscanf(r.Sweep, "inv=%d,op=%d/%d", &inv, &op, &n); err == nil {
					rr.JobParams += fmt.Sprintf(",sweep_inv=%d,sweep_op=%d", inv, op)
				}
			}
			rr.Violations = []Violation{v}
			a.viol[key] = append(a.viol[key], rr)
		}
	}
}

func loadKnown() KnownFindings {
	var k KnownFindings
	data, err := os.ReadFile(filepath.Join(verifDir, "known_findings.json"))
	if err == nil {
		if err := json.Unmarshal(data, &k); err != nil {
			infra("known_findings.json: %v", err)
		}
	}
	return k
}

func (k KnownFindings) match(v Violation) *Finding {
	for i := range k.Findings {
		f := &k.Findings[i]
		if f.Property == v.Prop && f.Class == v.Class && f.Signature == v.Signature {
			return f
		}
	}
	return nil
}

func check(prop, tier string) int {
	start := time.Now()
	plan, ok := plans[prop]
	if !ok {
		infra("no check registered for %s", prop)
	}
	seed := seedFromEnv()
	nw := workersFromEnv()
	budget := plan.QuickS
	if tier == "thorough" {
		budget = plan.ThoroughS
	}
	if v := os.Getenv("VERIF_BUDGET_S"); v != "" {
		if n, err := strconv.Atoi(v); err == nil && n > 0 {
			budget = n
		}
	}
	fmt.Printf("simctl: property=%s tier=%s VERIF_SEED=%d workers=%d budget=%ds\n", prop, tier, seed, nw, budget)
	scratch := prepare()
	defer os.RemoveAll(scratch)
	prepS := time.Since(start).Seconds()
	fmt.Printf("simctl: instrumented worker built in %.1fs (%s)\n", prepS, scratch)

	a := newAgg()
	simStart := time.Now()
	var infraMsgs []string
	type crashT struct {
		job  Job
		seed uint64
		log  string
	}
	var crashes []crashT
	jobs := plan.Jobs
	if tier != "thorough" {
		var keep []Job
		total := 0.0
		for _, j := range jobs {
			if !j.ThoroughOnly {
				keep = append(keep, j)
				total += j.Share
			}
		}
		for i := range keep {
			keep[i].Share /= total
		}
		jobs = keep
	}
	for ji, job := range jobs {
		jobBudget := time.Duration(float64(budget)*job.Share*1000) * time.Millisecond
		deadline := time.Now().Add(jobBudget)
		var wg sync.WaitGroup
		var mu sync.Mutex
		for w := 0; w < nw; w++ {
			wg.Add(1)
			go func(w int) {
				defer wg.Done()
				// worker processes are recycled every `chunk` runs: goroutines left blocked by
				// killed simulated processes are never freed and slow an ageing process down
				chunk := 120
				if job.Kind == "sweep" {
					chunk = 8 // a swept history is hundreds of runs (one per crash point)
				}
				for from := uint64(w); time.Now().Before(deadline); from += uint64(chunk * nw) {
					outFile := filepath.Join(scratch, fmt.Sprintf("out-%d-%d.jsonl", ji, w))
					os.Remove(outFile)
					modeEnv := "SIM_MODE=batch"
					if job.Kind == "sweep" {
						modeEnv = "SIM_MODE=sweep"
					}
					env := []string{
						modeEnv, "SIM_WORLD=" + job.World, "SIM_WMODE=" + job.Mode, "SIM_PARAMS=" + job.Params,
						fmt.Sprintf("SIM_SEED=%d", seed+uint64(ji)*1000003), fmt.Sprintf("SIM_FROM=%d", from), fmt.Sprintf("SIM_STRIDE=%d", nw),
						fmt.Sprintf("SIM_COUNT=%d", chunk), fmt.Sprintf("SIM_DEADLINE_UNIX=%d", deadline.Unix()),
					}
					log, err := runWorker(scratch, env, outFile, jobBudget+300*time.Second)
					res, lastBegin, pending, done := readResults(outFile)
					mu.Lock()
					for _, r := range res {
						a.add(r, job.Params)
					}
					if err != nil || !done {
						if pending {
							crashes = append(crashes, crashT{job, lastBegin, log})
						} else {
							infraMsgs = append(infraMsgs, fmt.Sprintf("worker %d of %s ended abnormally: %v\n%s", w, job.World, err, tail(log, 30)))
						}
					}
					mu.Unlock()
					os.Remove(outFile)
					if err != nil && !pending {
						break
					}
				}
			}(w)
		}
		wg.Wait()
	}
	simS := time.Since(simStart).Seconds()

	known := loadKnown()
	exit := 0
	nViol := 0
	var knownLines []string
	// worker crashes: a Go fatal error / panic in grog code is a C04 violation; anything else is infrastructure
	for _, c := range crashes {
		if strings.Contains(c.log, "SIMRT-INFRA") || strings.Contains(c.log, "SIMWORKER-INFRA") || !(strings.Contains(c.log, "fatal error:") || strings.Contains(c.log, "panic:")) {
			infraMsgs = append(infraMsgs, fmt.Sprintf("worker died on seed %d of %s:\n%s", c.seed, c.job.World, tail(c.log, 40)))
			continue
		}
		v := Violation{Prop: "C04", Class: "process-crash", Signature: firstLine(c.log, "fatal error:", "panic:"), Detail: tail(c.log, 60)}
		key := v.Prop + "|" + v.Class + "|" + v.Signature
		a.viol[key] = append(a.viol[key], RunResult{World: c.job.World, Mode: c.job.Mode, Seed: c.seed, Violations: []Violation{v}, JobParams: c.job.Params})
	}
	keys := make([]string, 0, len(a.viol))
	for k := range a.viol {
		keys = append(keys, k)
	}
	sort.Strings(keys)
	os.MkdirAll(filepath.Join(verifDir, "replays"), 0755)
	// minimise + confirm all violations of this property concurrently
	type minRes struct {
		final     ReplayFile
		confirmed bool
		msg       string
	}
	minimised := map[string]minRes{}
	{
		var wg sync.WaitGroup
		var mmu sync.Mutex
		sem := make(chan struct{}, 8)
		shrinkS := "30"
		if tier == "thorough" {
			shrinkS = "120"
		}
		os.Setenv("SIM_SHRINK_S", shrinkS)
		for _, key := range keys {
			rr := a.viol[key][0]
			v := rr.Violations[0]
			if v.Infra || v.Prop != prop {
				continue
			}
			wg.Add(1)
			go func(key string, rr RunResult, v Violation) {
				defer wg.Done()
				sem <- struct{}{}
				defer func() { <-sem }()
				rf := ReplayFile{Version: 1, Property: prop, World: rr.World, Mode: rr.Mode, Params: parseParams(rr.JobParams), Seed: rr.Seed, Violation: &v, Decoded: rr.Decoded}
				for _, c := range rr.Choices {
					rf.Choices = append(rf.Choices, c.V)
					rf.Kinds = append(rf.Kinds, c.K)
				}
				final, confirmed, msg := minimiseAndConfirm(scratch, rf)
				mmu.Lock()
				minimised[key] = minRes{final, confirmed, msg}
				mmu.Unlock()
			}(key, rr, v)
		}
		wg.Wait()
	}
	for _, key := range keys {
		rr := a.viol[key][0]
		v := rr.Violations[0]
		if v.Infra {
			infraMsgs = append(infraMsgs, v.Class+": "+v.Signature+"\n"+tail(v.Detail, 20))
			continue
		}
		if v.Prop != prop {
			fmt.Printf("ANOMALY (belongs to %s, not decided by this check): class=%s signature=%q world=%s seed=%d\n", v.Prop, v.Class, v.Signature, rr.World, rr.Seed)
			continue
		}
		// minimise + confirm in fresh processes
		rf := ReplayFile{Version: 1, Property: prop, World: rr.World, Mode: rr.Mode, Params: parseParams(rr.JobParams), Seed: rr.Seed, Violation: &v, Decoded: rr.Decoded}
		for _, c := range rr.Choices {
			rf.Choices = append(rf.Choices, c.V)
			rf.Kinds = append(rf.Kinds, c.K)
		}
		mr := minimised[key]
		final, confirmed, msg := mr.final, mr.confirmed, mr.msg
		if !confirmed {
			if v.Class == "process-crash" {
				// cannot be replayed in-process; report with the seed
				final = rf
				final.Note = "worker process died; replay by seed"
			} else {
				infraMsgs = append(infraMsgs, fmt.Sprintf("violation %s did not replay deterministically: %s", key, msg))
				continue
			}
		}
		fv := *final.Violation
		if f := known.match(fv); f != nil {
			knownLines = append(knownLines, fmt.Sprintf("KNOWN-FINDING: property=%s %s [%s] %s", prop, f.What, fv.Class, fv.Signature))
			// keep one minimised example history per known finding (written once, never updated)
			kp := filepath.Join(verifDir, "replays", "known", fmt.Sprintf("%s-%s.json", prop, sanitize(fv.Signature)))
			if _, err := os.Stat(kp); err != nil {
				os.MkdirAll(filepath.Dir(kp), 0755)
				data, _ := json.MarshalIndent(final, "", " ")
				os.WriteFile(kp, data, 0644)
			}
			continue
		}
		name := fmt.Sprintf("%s-%s-%d.json", prop, sanitize(fv.Class), final.Seed)
		path := filepath.Join(verifDir, "replays", name)
		data, _ := json.MarshalIndent(final, "", " ")
		os.WriteFile(path, data, 0644)
		fmt.Printf("--- violation of %s: class=%s signature=%q\n%s\n", prop, fv.Class, fv.Signature, tail(fv.Detail, 25))
		fmt.Printf("VIOLATION property=%s replay=%s\n", prop, path)
		nViol++
		exit = 1
	}
	sort.Strings(knownLines)
	seen := map[string]bool{}
	for _, l := range knownLines {
		if !seen[l] {
			fmt.Println(l)
			seen[l] = true
		}
	}
	if len(infraMsgs) > 0 {
		for _, m := range infraMsgs {
			fmt.Println("INFRA:", m)
		}
		return 2
	}
	if a.evals == 0 {
		infra("no simulated run completed")
	}
	writeEvidence(prop, tier, seed, plan, a, time.Since(start).Seconds(), simS, nViol, len(seen))
	fmt.Printf("simctl: slowest run %.2fs (seed %d, %d steps); simulation phase %.1fs\n", float64(a.slowUS)/1e6, a.slowSeed, a.slowSteps, simS)
	fmt.Printf("simctl: %s %s: %d runs, %d distinct non-trivial, %.0f runs/hour, %.1f simulated s, faults=%v, %d violation(s), %d known finding(s), %.1fs wall\n",
		prop, tier, a.evals, len(a.distinct), float64(a.evals)/simS*3600, float64(a.simMS)/1000, a.faults, nViol, len(seen), time.Since(start).Seconds())
	return exit
}

func parseParams(ps string) map[string]string {
	m := map[string]string{}
	for _, kv := range strings.Split(ps, ",") {
		if i := strings.Index(kv, "="); i > 0 {
			m[kv[:i]] = kv[i+1:]
		}
	}
	return m
}

func paramsOf(p Plan, world, mode string) map[string]string {
	for _, j := range p.Jobs {
		if j.World == world && j.Mode == mode {
			m := map[string]string{}
			for _, kv := range strings.Split(j.Params, ",") {
				if i := strings.Index(kv, "="); i > 0 {
					m[kv[:i]] = kv[i+1:]
				}
			}
			return m
		}
	}
	return nil
}

func sanitize(s string) string {
	var b strings.Builder
	for _, r := range s {
		if (r >= 'a' && r <= 'z') || (r >= 'A' && r <= 'Z') || (r >= '0' && r <= '9') || r == '-' {
			b.WriteRune(r)
		} else {
			b.WriteByte('_')
		}
	}
	return b.String()
}

func tail(s string, n int) string {
	lines := strings.Split(strings.TrimRight(s, "\n"), "\n")
	if len(lines) > n {
		lines = lines[len(lines)-n:]
	}
	return strings.Join(lines, "\n")
}

func firstLine(s string, markers ...string) string {
	for _, l := range strings.Split(s, "\n") {
		for _, m := range markers {
			if strings.Contains(l, m) {
				return strings.TrimSpace(l)
			}
		}
	}
	return "?"
}

// minimiseAndConfirm shrinks rf in a worker, then replays the result twice in fresh
// processes; both must show the same violation and the same trace hash.
func minimiseAndConfirm(scratch string, rf ReplayFile) (ReplayFile, bool, string) {
	if len(rf.Choices) == 0 && rf.Violation != nil && rf.Violation.Class == "process-crash" {
		return rf, false, "process crash"
	}
	in := filepath.Join(scratch, fmt.Sprintf("replay-in-%d.json", time.Now().UnixNano()))
	data, _ := json.Marshal(rf)
	os.WriteFile(in, data, 0644)
	defer os.Remove(in)
	out := in + ".out"
	defer os.Remove(out)
	log, err := runWorker(scratch, []string{"SIM_MODE=shrink", "SIM_REPLAY=" + in}, out, 400*time.Second)
	cur := rf
	if err == nil {
		if b, e := os.ReadFile(out); e == nil {
			var s ReplayFile
			if json.Unmarshal(b, &s) == nil && s.World != "" {
				cur = s
			}
		}
	} else {
		cur.Note = "shrink worker failed: " + err.Error() + " " + tail(log, 5)
	}
	// confirm twice
	var hashes []string
	for i := 0; i < 2; i++ {
		res, msg := replayOnce(scratch, cur)
		if res == nil {
			return cur, false, msg
		}
		found := false
		for _, v := range res.Violations {
			if v.Prop == cur.Violation.Prop && v.Class == cur.Violation.Class && v.Signature == cur.Violation.Signature {
				found = true
				vv := v
				cur.Violation = &vv
			}
		}
		if !found {
			return cur, false, "replay did not show the violation"
		}
		hashes = append(hashes, res.TraceHash)
	}
	if hashes[0] != hashes[1] {
		return cur, false, "trace hashes differ between two replays: " + hashes[0] + " vs " + hashes[1]
	}
	cur.TraceHash = hashes[0]
	return cur, true, ""
}

func replayOnce(scratch string, rf ReplayFile) (*RunResult, string) {
	in := filepath.Join(scratch, fmt.Sprintf("replay-%d.json", time.Now().UnixNano()))
	data, _ := json.Marshal(rf)
	os.WriteFile(in, data, 0644)
	defer os.Remove(in)
	out := in + ".out"
	defer os.Remove(out)
	log, err := runWorker(scratch, []string{"SIM_MODE=replay", "SIM_REPLAY=" + in}, out, 300*time.Second)
	if err != nil {
		return nil, "replay worker failed: " + err.Error() + "\n" + tail(log, 30)
	}
	res, _, _, _ := readResults(out)
	if len(res) != 1 {
		return nil, "replay produced no result\n" + tail(log, 30)
	}
	return &res[0], ""
}

func replayCmd(path string) int {
	data, err := os.ReadFile(path)
	if err != nil {
		infra("%v", err)
	}
	var rf ReplayFile
	if err := json.Unmarshal(data, &rf); err != nil {
		infra("bad replay file: %v", err)
	}
	scratch := prepare()
	defer os.RemoveAll(scratch)
	res, msg := replayOnce(scratch, rf)
	if res == nil {
		infra("%s", msg)
	}
	fmt.Printf("replay: world=%s seed=%d steps=%d trace_hash=%s (recorded %s)\n", res.World, rf.Seed, res.Steps, res.TraceHash, rf.TraceHash)
	for _, v := range res.Violations {
		if rf.Violation != nil && v.Prop == rf.Violation.Prop && v.Class == rf.Violation.Class && v.Signature == rf.Violation.Signature {
			fmt.Printf("--- reproduced: class=%s signature=%q\n%s\n", v.Class, v.Signature, tail(v.Detail, 40))
			if rf.TraceHash != "" && rf.TraceHash != res.TraceHash {
				fmt.Println("note: trace hash differs from the recorded one (the tree changed since the file was written)")
			}
			fmt.Printf("VIOLATION property=%s replay=%s\n", rf.Property, path)
			return 1
		}
	}
	fmt.Println("replay: the recorded violation did not occur on the current tree")
	for _, v := range res.Violations {
		fmt.Printf("  other violation: %s %s %q\n", v.Prop, v.Class, v.Signature)
	}
	return 0
}

func writeEvidence(prop, tier string, seed uint64, plan Plan, a *agg, wallS, simS float64, nViol, nKnown int) {
	samples := make([]json.RawMessage, 0, len(a.samples))
	samples = append(samples, a.samples...)
	if len(samples) == 0 {
		samples = append(samples, json.RawMessage(`{"note":"no decoded sample kept"}`))
	}
	zero := []string{}
	for _, p := range expectedProbes[prop] {
		if a.probes[p] == 0 {
			zero = append(zero, p)
		}
	}
	ev := map[string]any{
		"property_id": prop,
		"tier":        tier,
		"seed":        int64(seed & 0x7fffffffffffffff),
		"level":       plan.Level,
		"wall_s":      wallS,
		"violations":  nViol,
		"assumptions": plan.Assume,
		"coverage": map[string]any{
			"evaluations":         a.evals,
			"distinct_nontrivial": len(a.distinct),
			"rule":                plan.Rule,
			"samples":             samples,
			"runs_per_hour":       float64(a.evals) / simS * 3600,
			"seeds_per_hour":      float64(a.evals) / simS * 3600,
			"sim_seconds":         float64(a.simMS) / 1000,
			"scheduler_steps":     a.steps,
			"context_switches":    a.switches,
			"faults_fired":        a.faults,
			"probes":              a.probes,
			"probes_at_zero":      zero,
			"distinct_states":     len(a.states),
			"runs_per_world":      a.perWorld,
			"known_findings":      nKnown,
			"crash_sweep_points":  a.sweepPoints,
			"components": map[string]any{
				"real": plan.Real,
				"stub": plan.Stub,
			},
		},
	}
	evDir := filepath.Join(verifDir, "evidence")
	if os.Getenv("VERIF_REPO") != "" {
		// a run against another tree (sensitivity evaluation of a seeded change) must not
		// replace the evidence of the run against /repo
		evDir = filepath.Join(verifDir, "evidence", "other-tree")
	}
	os.MkdirAll(evDir, 0755)
	data, _ := json.MarshalIndent(ev, "", " ")
	if err := os.WriteFile(filepath.Join(evDir, prop+".json"), data, 0644); err != nil {
		infra("write evidence: %v", err)
	}
}
