package main

import (
	"fmt"
	"os"
	"path/filepath"
	"sync"
	"time"
)

var realDag = []string{"internal/dag (graph, walker)", "internal/worker (task pool)", "internal/maps", "internal/console (logger)"}
var stubDag = []string{"walk callback (simulated target: fake-clock latency, scripted failure, observes cancellation)", "bubbletea message sink (no-op)"}

var commonAssume = []string{
	"Go runtime + testing/synctest (fake clock, quiescence detection) are trusted",
	"the source rewriter preserves semantics (checked by running the repository's unit tests on the rewritten copy in pass-through mode)",
	"one task runs between two scheduler decisions; sim points are placed at every channel, mutex, once, waitgroup, select, map and file-system operation of internal/...",
	"a clean batch is evidence, not proof: schedules and faults are sampled by seed, not enumerated",
}

var expectedProbes = map[string][]string{
	"C03": {"wdag-pool-saturated", "lock-contended"},
	"C04": {"wdag-failure-ran", "select-later-case-ready"},
	"C05": {"wdag-failure-ran"},
}

var plans = map[string]Plan{
	"C03": {
		Jobs:  []Job{{World: "wdag", Params: "max_n=400", Share: 1}},
		Level: "exploration",
		Rule: "seeded random graphs (chain/tree/layers/diamond/random DAG, 1..400 nodes quick, ..3000 thorough), selections closed under dependencies, num_workers 1..8, latencies incl. zero and ties, failure subsets, fail-fast on/off; each run = one seeded schedule of the real walker + worker pool. " +
			"Checked at every start event: all direct dependencies finished successfully, no second start, running <= num_workers. non-trivial = >=2 callbacks started, >=1 edge and >=1 context switch; distinct = distinct (workload shape hash, schedule trace hash)",
		Real: realDag, Stub: stubDag, Assume: commonAssume, QuickS: 40, ThoroughS: 1200,
	},
	"C04": {
		Jobs:  []Job{{World: "wdag", Params: "max_n=400", Share: 1}},
		Level: "exploration",
		Rule: "same workloads as C03 plus external cancellation; violation classes: hang (no runnable task and no pending timer for 2h simulated, or step budget), panic in grog code, concurrent map access (write-window monitor = the interleavings on which the Go runtime throws), unresolved / inconsistent completion map on return. " +
			"non-trivial and distinct as for C03",
		Real: realDag, Stub: stubDag, Assume: commonAssume, QuickS: 40, ThoroughS: 1200,
	},
	"C05": {
		Jobs:  []Job{{World: "wdag", Params: "max_n=400", Share: 1}},
		Level: "exploration",
		Rule: "same workloads as C03 with failing subsets in both failure modes; keep-going: executed set == selected targets without failed transitive dependency, error summary names exactly the failed ones; fail-fast: no callback entered with a live context after a failing target's routine returned. " +
			"non-trivial and distinct as for C03",
		Real: realDag, Stub: stubDag, Assume: commonAssume, QuickS: 40, ThoroughS: 1200,
	},
}

// selftest: the same seeds must give identical executions in different processes and under
// different GOMAXPROCS values.
func selftest(tier string) int {
	start := time.Now()
	scratch := prepare()
	defer os.RemoveAll(scratch)
	count := 40
	if tier == "thorough" {
		count = 400
	}
	worlds := map[string]Job{}
	for _, p := range plans {
		for _, j := range p.Jobs {
			worlds[j.World+"/"+j.Mode+"/"+j.Params] = j
		}
	}
	bad := 0
	for name, job := range worlds {
		type sig struct{ hash string; steps, nch int }
		var mu sync.Mutex
		got := map[string]map[uint64]sig{}
		var wg sync.WaitGroup
		procs := []string{"1", "4", "16", "2", "8"}
		for rep := 0; rep < 2; rep++ {
			for _, gmp := range procs {
				wg.Add(1)
				go func(gmp string, rep int) {
					defer wg.Done()
					out := filepath.Join(scratch, fmt.Sprintf("self-%s-%d.jsonl", gmp, rep))
					env := []string{"SIM_MODE=batch", "SIM_WORLD=" + job.World, "SIM_WMODE=" + job.Mode, "SIM_PARAMS=" + job.Params,
						"SIM_SEED=777", "SIM_FROM=0", "SIM_STRIDE=1", fmt.Sprintf("SIM_COUNT=%d", count), "GOMAXPROCS=" + gmp}
					log, err := runWorker(scratch, env, out, 1200*time.Second)
					if err != nil {
						fmt.Println("INFRA: selftest worker failed:", err, tail(log, 20))
						mu.Lock()
						bad++
						mu.Unlock()
						return
					}
					res, _, _, _ := readResults(out)
					m := map[uint64]sig{}
					for _, r := range res {
						m[r.Seed] = sig{r.TraceHash, r.Steps, r.NChoices}
					}
					mu.Lock()
					got[fmt.Sprintf("%s#%d", gmp, rep)] = m
					mu.Unlock()
				}(gmp, rep)
			}
		}
		wg.Wait()
		var ref map[uint64]sig
		var refName string
		for k, m := range got {
			if ref == nil {
				ref, refName = m, k
				continue
			}
			if len(m) != len(ref) {
				fmt.Printf("SELFTEST-DIVERGENCE world=%s: %s has %d runs, %s has %d\n", name, k, len(m), refName, len(ref))
				bad++
			}
			for seed, s := range m {
				if ref[seed] != s {
					fmt.Printf("SELFTEST-DIVERGENCE world=%s seed=%d: %s=%v %s=%v\n", name, seed, k, s, refName, ref[seed])
					bad++
				}
			}
		}
		fmt.Printf("selftest: world %s: %d seeds x %d processes (GOMAXPROCS 1,2,4,8,16 twice): identical=%v\n", name, len(ref), len(got), bad == 0)
	}
	fmt.Printf("selftest done in %.1fs\n", time.Since(start).Seconds())
	if bad > 0 {
		return 2
	}
	return 0
}
