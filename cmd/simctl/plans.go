package main

import (
	"fmt"
	"os"
	"path/filepath"
	"sync"
	"time"
)

var realDag = []string{"internal/dag (graph, walker)", "internal/worker (task pool)", "internal/maps", "internal/console (logger)"}
var stubDag = []string{"walk callback (simulated target: fake-clock latency, scripted failure, observes cancellation)", "bubbletea message sink (no-op)"}

var commonAssume = []string{
	"Go runtime + testing/synctest (fake clock, quiescence detection) are trusted",
	"the source rewriter preserves semantics (checked by running the repository's unit tests on the rewritten copy in pass-through mode)",
	"one task runs between two scheduler decisions; sim points are placed at every channel, mutex, once, waitgroup, select, map and file-system operation of internal/...",
	"a clean batch is evidence, not proof: schedules and faults are sampled by seed, not enumerated",
}

var expectedProbes = map[string][]string{
	"C01": {"target-restored-not-executed", "early-cutoff-dependant-restored-after-dependency-executed", "invocation-killed"},
	"C02": {"build-executed-nothing", "early-cutoff-dependant-restored-after-dependency-executed", "restored-into-absent-destination"},
	"C03": {"wdag-pool-saturated", "lock-contended"},
	"C04": {"wdag-failure-ran", "select-later-case-ready", "invocation-killed"},
	"C05": {"wdag-failure-ran", "command-killed-by-context"},
	"C06": {"target-restored-not-executed", "restored-into-absent-destination"},
	"C07": {"crash-inside-copy", "invocation-killed"},
	"C08": {"remote-entry-available-to-other-machine", "remote-put-applied-but-error"},
	"C10": {"wlock-acquired", "invocation-killed"},
	"C12": {"target-restored-not-executed"},
	"C13": {"build-executed-nothing"},
	"C14": {"command-killed-by-context"},
	"C15": {"target-restored-not-executed"},
	"C18": {"command-killed-by-context", "killed-at-exit:console/cmd_setup.go:16"},
}

var realBuild = []string{
	"internal/cmd/cmds (BuildCmd.Run / TestCmd.Run / TaintCmd.Run / RunBuild bodies)", "internal/loading (JSON loader, glob resolution, parallel package walk)",
	"internal/analysis", "internal/selection", "internal/label", "internal/model", "internal/hashing", "internal/execution (executor, cache gate, output checks)",
	"internal/output (registry, file + directory handlers, protobuf)", "internal/caching (CAS, target results, taint)", "internal/caching/backends/fs.go",
	"internal/locking", "internal/dag", "internal/worker", "internal/console (SetupCommand, logger)", "real files on tmpfs behind simos interposition",
}
var stubBuild = []string{
	"shell commands: simexec interprets ': SIMCMD <label> vN' (reads inputs and dependency outputs from disk, fake-clock duration, writes outputs = pure function of what it read; honours context like os/exec)",
	"bubbletea task UI (console.StartTaskUI body replaced)", "cobra/viper flag parsing (harness fills config.Global)", "gocodewalker parallel walker (deterministic lexical walker)",
	"git rev-parse (exit 128)", "process table / os.Exit / signals (simos)",
}
var buildAssume = append([]string{
	"simulated commands are deterministic functions of their declared inputs and dependency outputs, as the properties assume",
	"reference model (harness/model.go) is written from the documentation; corners the documentation leaves open are classified MAY and never reported (DESIGN.md appendix A)",
	"generator excludes: overlapping outputs, inputs that are another target's outputs, invalid UTF-8 names, dependency path counts above the cap",
}, commonAssume...)

const buildRule = "seeded universes (1-3 packages, 2-7 targets: explicit/glob inputs with excludes, file/dir/bin outputs, dependencies direct or through 1-2 aliases, tags, fingerprints, platforms, tests, checks, failing targets) and histories of 2-6 operations (edits incl. bytes moved across adjacent inputs, alias retargeting, revert; builds with random patterns/filters/num_workers/hash algorithm/enable_cache/fail_fast; taint; workspace mutations of output paths), each closed by a full build and an identical rebuild; every invocation is the real command body run as a simulated process under a seeded schedule. " +
	"Oracle: reference model gives MUST / MUST-NOT / MAY execute per target and the bytes of a clean build. non-trivial = >=2 builds and >=1 context switch; distinct = distinct (history shape hash, schedule trace hash)."

const faultRule = " Fault runs (mode=faults): per-run budget of 1-3 faults drawn from a per-run subset of {fs-error-read, fs-error-write (ENOSPC), fs-error-stat, short-write, read-error, crash at the k-th file-system operation of a build (incl. inside a copy: a strict prefix is written), SIGINT at a drawn scheduler step, removal of a cache entry between builds}; injected only on cache paths, biased towards blob reads / renames in half of the runs. Oracle relaxed narrowly: a faulted invocation may fail or re-execute, never hang, crash, report success with wrong bytes or leave a corrupt cache."

var plans = map[string]Plan{
	"C15": {Jobs: []Job{{World: "wbuild", Params: "mode=twin,max_targets=5", Share: 0.6}, {World: "wbuild", Params: "mode=faults,load=minimal,max_targets=5,force=extfail", Share: 0.4}}, Level: "exploration",
		Rule: buildRule + faultRule + " C15: twin worlds - the same universe and history run in lock-step on machine A (load_outputs=all) and machine B (minimal), separate caches and workspaces, independent schedules: same exit status, same multiset of executed commands, every materialised output of a selected target equal; in both worlds every executed command must find its direct dependencies' outputs (also through aliases) present and current; second job: minimal mode under cache faults.",
		Real: realBuild, Stub: stubBuild, Assume: append([]string{"twin runs exclude features that make the two worlds legitimately diverge: commands changing the shared external state (checks), external failures, cache-disabled builds, fail-fast"}, buildAssume...), QuickS: 45, ThoroughS: 900},
	"C08": {Jobs: []Job{{World: "wbuild", Params: "mode=remote,max_targets=5", Share: 0.4}, {World: "wbuild", Params: "mode=remote,max_targets=5,force=nonhermetic+taint+twins", Share: 0.25}, {World: "wbuild", Params: "mode=remote,focus=faults,max_targets=5", Share: 0.35}}, Level: "fault_enumeration",
		Rule: buildRule + " C08: two machines with the same workspace identity (same absolute workspace path, checkouts swapped in and out, separate local cache roots) sharing an in-memory S3 object store behind grog's S3Client interface; histories interleave builds on A and B, edits, output wipes, and A optionally starting without the remote. After every successful build with the remote configured: every remote target result decodes and every blob it references (through trees) is present remotely; a machine may not execute what the remote certainly holds (shared cache model), restores byte-identical outputs, and its local cache holds the blobs it had to read. Fault runs: remote Get / Put (not applied, applied-but-error) / Head errors, mid-stream read errors, latency on the fake clock: degrade to a miss or a reported failure, never wrong bytes or a hang.",
		Real: append([]string{"internal/caching/backends/remote_wrapper.go", "internal/caching/backends/s3.go (S3Cache key layout; NewS3CacheWithClient)"}, realBuild...), Stub: append([]string{"AWS SDK client: in-memory object store behind the S3Client interface (NewS3Cache's SDK construction replaced)", "GCS backend not simulated (no seam)"}, stubBuild...), Assume: buildAssume, QuickS: 45, ThoroughS: 900},
	"C10": {Jobs: []Job{{World: "wlock", Params: "", Share: 0.7}, {World: "wbuild", Params: "mode=faults,focus=crash,max_targets=4", Share: 0.1}, {World: "wbuild", Params: "mode=faults,focus=signal,max_targets=4,contend=1", Share: 0.2}}, Level: "exploration",
		Rule: "W-lock: 2-3 simulated processes (own pids in a simulated process table) run Lock -> critical section (0 / 5 ms / 1.5 s on the fake clock) -> Unlock, or exit without unlocking, or are killed at a drawn file-system step of Lock / section / Unlock; optional pre-existing lock file (dead pid, empty, garbage, a foreign live pid that dies after 2.5 s); every os call of the real WorkspaceLocker and its liveness probe is a sim point, so create->write-pid and read-stale->remove windows are ordinary interleavings. Invariant at every acquisition: at most one live process between Lock()==nil and Unlock(); liveness: every process that is not killed acquires (hang = no runnable task and no timer for 2 h simulated, or step budget). Second job: the real RunBuild call site with crashes (stale lock left by a killed build must not block the next one). non-trivial = >=2 contenders; distinct = distinct (case hash, schedule trace hash).",
		Real: []string{"internal/locking (WorkspaceLocker)", "internal/config (lock file location)", "W-build jobs: the full build path (see C07); with contend=1 a second `grog build` is started in the same workspace while an invocation runs (also while it is being interrupted)"}, Stub: []string{"process table, os.Getpid, os.FindProcess + Signal(0) (simos)", "PID reuse is not injected"}, Assume: commonAssume, QuickS: 30, ThoroughS: 900},
	"C07": {Jobs: []Job{{World: "wbuild", Params: "mode=faults,focus=crash,max_targets=5", Share: 0.55}, {World: "wbuild", Params: "max_targets=5", Share: 0.1}, {World: "wkv", Params: "", Share: 0.2}, {World: "wbuild", Params: "mode=remote,focus=faults,max_targets=4", Share: 0.15}, {World: "wbuild", Params: "max_targets=4", Share: 0.4, Kind: "sweep", ThoroughOnly: true}}, Level: "fault_enumeration",
		Rule: buildRule + faultRule + " W-kv job: the file-system cache backend alone under 2-4 concurrent client processes issuing Set/Get/Exists/Delete on 2-3 keys with unique values, I/O faults and client crashes; the history (invoke/return stamped with scheduler event numbers; failed or cut operations possibly applied) is checked with porcupine against a per-key register, plus 'no value is read that no Set wrote'. Thorough tier only: crash sweep - for successive seeds a fault-free history is probed for the number of file-system operations of each build invocation, then replayed once per operation index (the two longest invocations) with the process killed exactly there (coverage key crash_sweep_points). C07: after EVERY invocation (also killed ones) an offline audit of the cache directory: every cas/<d> (not tmp-*) hashes to d, every target/<k> decodes and every blob it references (through trees) is present; the follow-up builds must satisfy C01.",
		Real: append([]string{"internal/caching/backends/fs.go under concurrent clients (W-kv)"}, realBuild...), Stub: stubBuild, Assume: append([]string{"porcupine result Unknown (timeout) is inconclusive and never reported", "crash model is process death with the page cache intact (kill -9): every completed file-system operation survives; loss of un-fsynced data on power failure is outside the statement and not injected", "a crash also kills the running target shells"}, buildAssume...), QuickS: 45, ThoroughS: 900},
	"C18": {Jobs: []Job{{World: "wbuild", Params: "mode=faults,focus=signal,max_targets=5", Share: 0.6}, {World: "wbuild", Params: "mode=faults,focus=signal,max_targets=5,force=trapterm+timeouts", Share: 0.4}}, Level: "fault_enumeration",
		Rule: buildRule + faultRule + " C18: SIGINT delivered through the real SetupCommand handler at a drawn step of loading / execution / output writing / shutdown: no command is forked after the handler task has finished, the process ends within 10 s simulated, no target shell is left running un-killed when the process exits (incl. shells that trap SIGTERM: only SIGKILL stops those), interrupted targets must execute again in the next build, which must acquire the (stale) lock and satisfy C01.",
		Real: realBuild, Stub: append([]string{"that a real sh and its children die on kill (the simulated command dies at once)"}, stubBuild...), Assume: buildAssume, QuickS: 45, ThoroughS: 900},
	"C01": {Jobs: []Job{{World: "wbuild", Params: "max_targets=6", Share: 0.7}, {World: "wbuild", Params: "mode=faults,max_targets=5", Share: 0.3}, {World: "wbuild", Params: "max_targets=10,long=1", Share: 0.25, ThoroughOnly: true}}, Level: "exploration", Rule: buildRule + faultRule + " C01: after every build that exits 0 every declared output of every selected target equals the model's clean build; a target that must execute for lack of a result for its current state did execute.",
		Real: realBuild, Stub: stubBuild, Assume: buildAssume, QuickS: 45, ThoroughS: 900},
	"C02": {Jobs: []Job{{World: "wbuild", Params: "max_targets=6", Share: 0.55}, {World: "wbuild", Params: "load=minimal,max_targets=6", Share: 0.25}, {World: "wbuild", Params: "mode=faults,focus=damage,max_targets=5,force=nonhermetic+taint", Share: 0.2}, {World: "wbuild", Params: "max_targets=10,long=1", Share: 0.25, ThoroughOnly: true}}, Level: "exploration", Rule: buildRule + " C02: the set of commands executed by each build is compared with MUST-NOT (cached result for the current state, nothing forcing execution), incl. no-op rebuild, early cut-off (projected commands) and damaged output paths.",
		Real: realBuild, Stub: stubBuild, Assume: buildAssume, QuickS: 45, ThoroughS: 900},
	"C06": {Jobs: []Job{{World: "wbuild", Params: "max_targets=6", Share: 0.6}, {World: "wbuild", Params: "max_targets=4,force=dirs+bin+wsmut", Share: 0.4}, {World: "wbuild", Params: "max_targets=10,long=1", Share: 0.25, ThoroughOnly: true}}, Level: "exploration", Rule: buildRule + " C06: a restored (not executed) target's recursive listing (type, exec bit, content, link target, nothing extra) equals the clean build, from destination states absent / parent absent / modified / truncated / stale extra entries / file where a directory should be.",
		Real: realBuild, Stub: stubBuild, Assume: buildAssume, QuickS: 45, ThoroughS: 900},
	"C12": {Jobs: []Job{{World: "wbuild", Params: "max_targets=6", Share: 0.6}, {World: "wbuild", Params: "max_targets=7,force=alias+tags+tests+testonly+platforms", Share: 0.4}, {World: "wbuild", Params: "max_targets=10,long=1", Share: 0.25, ThoroughOnly: true}}, Level: "exploration", Rule: buildRule + " C12: executed commands are a subset of the model's selection closure, the number of selected targets logged by grog lies in [must, must+may], a platform-incompatible dependency aborts before any command.",
		Real: realBuild, Stub: stubBuild, Assume: buildAssume, QuickS: 45, ThoroughS: 900},
	"C13": {Jobs: []Job{{World: "wbuild", Params: "max_targets=6", Share: 0.3}, {World: "wbuild", Params: "max_targets=5,force=taint+flatnames+nocache-build+tags", Share: 0.25}, {World: "wbuild", Params: "max_targets=4,force=taint+extfail+checks", Share: 0.25}, {World: "wbuild", Params: "load=minimal,max_targets=6,force=taint+nocache-build+tags", Share: 0.2}, {World: "wbuild", Params: "max_targets=10,long=1", Share: 0.25, ThoroughOnly: true}}, Level: "exploration", Rule: buildRule + " C13: tainted / no-cache / cache-disabled targets must execute, a consumed taint must not force a second execution, dependants only if outputs changed.",
		Real: realBuild, Stub: stubBuild, Assume: buildAssume, QuickS: 45, ThoroughS: 900},
	"C14": {Jobs: []Job{{World: "wbuild", Params: "max_targets=6", Share: 0.6}, {World: "wbuild", Params: "load=minimal,max_targets=6", Share: 0.15}, {World: "wbuild", Params: "mode=faults,load=minimal,max_targets=4,force=timeouts+extfail+checks", Share: 0.25}, {World: "wbuild", Params: "max_targets=10,long=1", Share: 0.25, ThoroughOnly: true}}, Level: "exploration", Rule: buildRule + " C14: targets that exit non-zero, time out on the fake clock, omit a declared output or fail an output check are never reported successful; a failing check forces execution although a cached result exists.",
		Real: realBuild, Stub: stubBuild, Assume: buildAssume, QuickS: 45, ThoroughS: 900},
	"C03": {
		Jobs:  []Job{{World: "wdag", Params: "max_n=400", Share: 0.4}, {World: "wbuild", Params: "max_targets=6", Share: 0.25}, {World: "wbuild", Params: "load=minimal,max_targets=6", Share: 0.1}, {World: "wbuild", Params: "mode=faults,load=minimal,max_targets=5,force=extfail,damage=1", Share: 0.25}, {World: "wbuild", Params: "max_targets=10,long=1", Share: 0.25, ThoroughOnly: true}},
		Level: "exploration",
		Rule: "seeded random graphs (chain/tree/layers/diamond/random DAG, 1..400 nodes quick, ..3000 thorough), selections closed under dependencies, num_workers 1..8, latencies incl. zero and ties, failure subsets, fail-fast on/off; each run = one seeded schedule of the real walker + worker pool. " +
			"Checked at every start event: all direct dependencies finished successfully, no second start, running <= num_workers. non-trivial = >=2 callbacks started, >=1 edge and >=1 context switch; distinct = distinct (workload shape hash, schedule trace hash)",
		Real: append(realDag, realBuild...), Stub: append(stubDag, stubBuild...), Assume: buildAssume, QuickS: 50, ThoroughS: 900,
	},
	"C04": {
		Jobs:  []Job{{World: "wdag", Params: "max_n=400", Share: 0.35}, {World: "wbuild", Params: "max_targets=6", Share: 0.1}, {World: "wbuild", Params: "mode=faults,max_targets=5,force=dirs,damage=1", Share: 0.3}, {World: "wbuild", Params: "mode=faults,load=minimal,max_targets=5,force=extfail,damage=1", Share: 0.25}},
		Level: "exploration",
		Rule: "W-build fault runs: cache read faults at every depth of an output restore (target result, tree blob, k-th file blob), see C07 for the fault catalogue. same workloads as C03 plus external cancellation; violation classes: hang (no runnable task and no pending timer for 2h simulated, or step budget), panic in grog code, concurrent map access (write-window monitor = the interleavings on which the Go runtime throws), unresolved / inconsistent completion map on return. " +
			"non-trivial and distinct as for C03",
		Real: append(realDag, realBuild...), Stub: append(stubDag, stubBuild...), Assume: buildAssume, QuickS: 50, ThoroughS: 900,
	},
	"C05": {
		Jobs:  []Job{{World: "wdag", Params: "max_n=400", Share: 0.5}, {World: "wbuild", Params: "max_targets=6", Share: 0.5}, {World: "wbuild", Params: "max_targets=10,long=1", Share: 0.25, ThoroughOnly: true}},
		Level: "exploration",
		Rule: "same workloads as C03 with failing subsets in both failure modes; keep-going: executed set == selected targets without failed transitive dependency, error summary names exactly the failed ones; fail-fast: no callback entered with a live context after a failing target's routine returned. " +
			"non-trivial and distinct as for C03",
		Real: append(realDag, realBuild...), Stub: append(stubDag, stubBuild...), Assume: buildAssume, QuickS: 50, ThoroughS: 900,
	},
}

// selftest: the same seeds must give identical executions in different processes and under
// different GOMAXPROCS values.
func selftest(tier string) int {
	start := time.Now()
	scratch := prepare()
	defer os.RemoveAll(scratch)
	count := 40
	if tier == "thorough" {
		count = 400
	}
	worlds := map[string]Job{}
	for _, p := range plans {
		for _, j := range p.Jobs {
			worlds[j.World+"/"+j.Mode+"/"+j.Params] = j
		}
	}
	bad := 0
	for name, job := range worlds {
		type sig struct {
			hash       string
			steps, nch int
		}
		var mu sync.Mutex
		got := map[string]map[uint64]sig{}
		var wg sync.WaitGroup
		procs := []string{"1", "4", "16", "2", "8"}
		for rep := 0; rep < 2; rep++ {
			for _, gmp := range procs {
				wg.Add(1)
				go func(gmp string, rep int) {
					defer wg.Done()
					out := filepath.Join(scratch, fmt.Sprintf("self-%s-%d.jsonl", gmp, rep))
					env := []string{"SIM_MODE=batch", "SIM_WORLD=" + job.World, "SIM_WMODE=" + job.Mode, "SIM_PARAMS=" + job.Params,
						"SIM_SEED=777", "SIM_FROM=0", "SIM_STRIDE=1", fmt.Sprintf("SIM_COUNT=%d", count), "GOMAXPROCS=" + gmp}
					log, err := runWorker(scratch, env, out, 1200*time.Second)
					if err != nil {
						fmt.Println("INFRA: selftest worker failed:", err, tail(log, 20))
						mu.Lock()
						bad++
						mu.Unlock()
						return
					}
					res, _, _, _ := readResults(out)
					m := map[uint64]sig{}
					for _, r := range res {
						m[r.Seed] = sig{r.TraceHash, r.Steps, r.NChoices}
					}
					mu.Lock()
					got[fmt.Sprintf("%s#%d", gmp, rep)] = m
					mu.Unlock()
				}(gmp, rep)
			}
		}
		wg.Wait()
		var ref map[uint64]sig
		var refName string
		for k, m := range got {
			if ref == nil {
				ref, refName = m, k
				continue
			}
			if len(m) != len(ref) {
				fmt.Printf("SELFTEST-DIVERGENCE world=%s: %s has %d runs, %s has %d\n", name, k, len(m), refName, len(ref))
				bad++
			}
			for seed, s := range m {
				if ref[seed] != s {
					fmt.Printf("SELFTEST-DIVERGENCE world=%s seed=%d: %s=%v %s=%v\n", name, seed, k, s, refName, ref[seed])
					bad++
				}
			}
		}
		fmt.Printf("selftest: world %s: %d seeds x %d processes (GOMAXPROCS 1,2,4,8,16 twice): identical=%v\n", name, len(ref), len(got), bad == 0)
	}
	fmt.Printf("selftest done in %.1fs\n", time.Since(start).Seconds())
	if bad > 0 {
		return 2
	}
	return 0
}
