// simrewrite instruments a scratch copy of module grog for deterministic simulation.
//
// usage: simrewrite <scratch-module-dir>
//
// It loads ./internal/... with full type information, rewrites every non-test file in place
// according to DESIGN.md §2.2a and exits 2 with "SIMREWRITE-UNSUPPORTED" lines when it meets a
// construct it cannot transform safely.
package main

import (
	"bytes"
	"fmt"
	"go/ast"
	"go/format"
	"go/token"
	"go/types"
	"os"
	"path/filepath"
	"sort"
	"strconv"
	"strings"

	"golang.org/x/tools/go/ast/astutil"
	"golang.org/x/tools/go/packages"
)

const (
	simrtPath   = "grog/internal/zzsim/simrt"
	simosPath   = "grog/internal/zzsim/simos"
	simexecPath = "grog/internal/zzsim/simexec"
)

var (
	unsupported []string
	report      []string
	stats       = map[string]int{}
)

func unsup(fset *token.FileSet, pos token.Pos, msg string) {
	unsupported = append(unsupported, fmt.Sprintf("SIMREWRITE-UNSUPPORTED %s: %s", fset.Position(pos), msg))
}

func main() {
	if len(os.Args) < 2 {
		fmt.Fprintln(os.Stderr, "usage: simrewrite <module-dir>")
		os.Exit(2)
	}
	dir, _ := filepath.Abs(os.Args[1])
	os.Setenv("PATH", "/opt/veriftools/go1.26.8/bin:"+os.Getenv("PATH"))
	cfg := &packages.Config{
		Mode: packages.NeedName | packages.NeedFiles | packages.NeedCompiledGoFiles | packages.NeedSyntax |
			packages.NeedTypes | packages.NeedTypesInfo | packages.NeedImports | packages.NeedDeps,
		Dir:   dir,
		Tests: false,
		Env:   append(os.Environ(), "GOFLAGS=-mod=mod", "GOPROXY=off", "GOSUMDB=off", "GOTOOLCHAIN=local", "PATH=/opt/veriftools/go1.26.8/bin:"+os.Getenv("PATH")),
	}
	pkgs, err := packages.Load(cfg, "./internal/...")
	if err != nil {
		fmt.Fprintln(os.Stderr, "simrewrite: load:", err)
		os.Exit(2)
	}
	bad := false
	for _, p := range pkgs {
		for _, e := range p.Errors {
			fmt.Fprintf(os.Stderr, "simrewrite: %s: %v\n", p.PkgPath, e)
			bad = true
		}
	}
	if bad {
		os.Exit(2)
	}
	sort.Slice(pkgs, func(i, j int) bool { return pkgs[i].PkgPath < pkgs[j].PkgPath })
	for _, p := range pkgs {
		if skipPackage(p.PkgPath) {
			continue
		}
		for i, f := range p.Syntax {
			name := p.CompiledGoFiles[i]
			if strings.HasSuffix(name, "_test.go") || !strings.HasPrefix(name, dir) {
				continue
			}
			rw := &rewriter{fset: p.Fset, info: p.TypesInfo, pkg: p.Types, file: f, fname: name, rel: strings.TrimPrefix(name, dir+"/")}
			if rw.run() {
				var buf bytes.Buffer
				if err := format.Node(&buf, p.Fset, f); err != nil {
					fmt.Fprintf(os.Stderr, "simrewrite: print %s: %v\n", name, err)
					os.Exit(2)
				}
				if err := os.WriteFile(name, buf.Bytes(), 0644); err != nil {
					fmt.Fprintln(os.Stderr, "simrewrite:", err)
					os.Exit(2)
				}
			}
		}
	}
	checkReplaced()
	if len(unsupported) > 0 {
		for _, u := range unsupported {
			fmt.Fprintln(os.Stderr, u)
		}
		os.Exit(2)
	}
	keys := make([]string, 0, len(stats))
	for k := range stats {
		keys = append(keys, k)
	}
	sort.Strings(keys)
	for _, k := range keys {
		fmt.Printf("simrewrite: %-24s %d\n", k, stats[k])
	}
	for _, r := range report {
		fmt.Println("simrewrite: note:", r)
	}
}

func skipPackage(path string) bool {
	return strings.Contains(path, "/zzsim") || strings.Contains(path, "/zzharness") ||
		strings.HasPrefix(path, "grog/internal/proto")
}

type rewriter struct {
	fset    *token.FileSet
	info    *types.Info
	pkg     *types.Package
	file    *ast.File
	fname   string
	rel     string
	changed bool
	useRT   bool
	useOS   bool
	funcLit []*ast.FuncLit
	skip    map[ast.Node]bool
	nsel    int
}

func (r *rewriter) site(pos token.Pos) *ast.BasicLit {
	p := r.fset.Position(pos)
	rel := strings.TrimPrefix(r.rel, "internal/")
	return &ast.BasicLit{Kind: token.STRING, Value: strconv.Quote(fmt.Sprintf("%s:%d", rel, p.Line))}
}

func rt(name string) ast.Expr {
	return &ast.SelectorExpr{X: ast.NewIdent("simrt"), Sel: ast.NewIdent(name)}
}

func call(fun ast.Expr, args ...ast.Expr) *ast.CallExpr {
	return &ast.CallExpr{Fun: fun, Args: args}
}

func (r *rewriter) typeOf(e ast.Expr) types.Type {
	if tv, ok := r.info.Types[e]; ok {
		return tv.Type
	}
	if id, ok := e.(*ast.Ident); ok {
		if o := r.info.ObjectOf(id); o != nil {
			return o.Type()
		}
	}
	return nil
}

func isNamed(t types.Type, pkg, name string) bool {
	if t == nil {
		return false
	}
	if p, ok := t.(*types.Pointer); ok {
		t = p.Elem()
	}
	n, ok := types.Unalias(t).(*types.Named)
	if !ok {
		return false
	}
	o := n.Obj()
	return o.Pkg() != nil && o.Pkg().Path() == pkg && o.Name() == name
}

func isPointer(t types.Type) bool {
	_, ok := t.Underlying().(*types.Pointer)
	return ok
}

func isMap(t types.Type) bool {
	if t == nil {
		return false
	}
	_, ok := t.Underlying().(*types.Map)
	return ok
}

func isChan(t types.Type) bool {
	if t == nil {
		return false
	}
	_, ok := t.Underlying().(*types.Chan)
	return ok
}

// methodOf returns (pkgPath, recvTypeName, methodName) if call is a method call.
func (r *rewriter) methodOf(c *ast.CallExpr) (string, string, string, *ast.SelectorExpr) {
	sel, ok := c.Fun.(*ast.SelectorExpr)
	if !ok {
		return "", "", "", nil
	}
	s, ok := r.info.Selections[sel]
	if !ok || s.Kind() != types.MethodVal {
		return "", "", "", nil
	}
	fn, ok := s.Obj().(*types.Func)
	if !ok || fn.Pkg() == nil {
		return "", "", "", nil
	}
	sig := fn.Type().(*types.Signature)
	recvName := ""
	if sig.Recv() != nil {
		t := sig.Recv().Type()
		if p, ok := t.(*types.Pointer); ok {
			t = p.Elem()
		}
		if n, ok := types.Unalias(t).(*types.Named); ok {
			recvName = n.Obj().Name()
		}
	}
	return fn.Pkg().Path(), recvName, fn.Name(), sel
}

// pkgFunc returns (pkgPath, name) if call is pkg.Func(...).
func (r *rewriter) pkgFunc(c *ast.CallExpr) (string, string) {
	sel, ok := c.Fun.(*ast.SelectorExpr)
	if !ok {
		return "", ""
	}
	id, ok := sel.X.(*ast.Ident)
	if !ok {
		return "", ""
	}
	pn, ok := r.info.Uses[id].(*types.PkgName)
	if !ok {
		return "", ""
	}
	return pn.Imported().Path(), sel.Sel.Name
}

func (r *rewriter) isBuiltin(c *ast.CallExpr, name string) bool {
	id, ok := c.Fun.(*ast.Ident)
	if !ok || id.Name != name {
		return false
	}
	_, ok = r.info.Uses[id].(*types.Builtin)
	return ok
}

// addrOf returns &x for a non-pointer mutex expression, x for a pointer.
func (r *rewriter) addrOf(x ast.Expr) ast.Expr {
	t := r.typeOf(x)
	if t != nil && isPointer(t) {
		return x
	}
	return &ast.UnaryExpr{Op: token.AND, X: x}
}

// shared: every map is tracked dynamically by simrt.
func (r *rewriter) shared(x ast.Expr) bool { return true }

// escapes is the static hint: the map expression can be reached by more than one goroutine
// (struct field, package-level variable, or a local captured by a function literal). Writes
// to such maps always open a yield window; writes to plain locals only once a second task
// has been seen touching the map.
func (r *rewriter) escapes(x ast.Expr) bool {
	switch e := x.(type) {
	case *ast.ParenExpr:
		return r.escapes(e.X)
	case *ast.SelectorExpr:
		if s, ok := r.info.Selections[e]; ok {
			return s.Kind() == types.FieldVal
		}
		if v, ok := r.info.Uses[e.Sel].(*types.Var); ok && v.Pkg() != nil {
			return v.Parent() == v.Pkg().Scope()
		}
	case *ast.Ident:
		v, ok := r.info.Uses[e].(*types.Var)
		if !ok {
			return false
		}
		if v.Pkg() != nil && v.Parent() == v.Pkg().Scope() {
			return true
		}
		if n := len(r.funcLit); n > 0 {
			fl := r.funcLit[n-1]
			if v.Pos() < fl.Pos() || v.Pos() > fl.End() {
				return true
			}
		}
	case *ast.IndexExpr:
		return r.escapes(e.X)
	case *ast.CallExpr:
		return true
	}
	return false
}

func (r *rewriter) mapW(x ast.Expr) ast.Expr {
	if r.escapes(x) {
		return rt("MapW")
	}
	return rt("MapWL")
}

func pureExpr(e ast.Expr) bool {
	switch x := e.(type) {
	case *ast.Ident:
		return true
	case *ast.SelectorExpr:
		return pureExpr(x.X)
	case *ast.ParenExpr:
		return pureExpr(x.X)
	case *ast.StarExpr:
		return pureExpr(x.X)
	}
	return false
}

func (r *rewriter) run() bool {
	r.skip = map[ast.Node]bool{}
	// function body replacements first (they parse new source)
	r.replaceBodies()

	astutil.Apply(r.file, r.pre, r.post)

	if !r.changed {
		return false
	}
	if r.useRT {
		astutil.AddNamedImport(r.fset, r.file, "simrt", simrtPath)
	}
	if r.useOS {
		astutil.AddNamedImport(r.fset, r.file, "simos", simosPath)
	}
	r.fixImports()
	// keep only directive comments (//go:embed etc.); everything else could be misplaced by
	// the printer after restructuring.
	var keep []*ast.CommentGroup
	for _, cg := range r.file.Comments {
		for _, c := range cg.List {
			if strings.HasPrefix(c.Text, "//go:") {
				keep = append(keep, &ast.CommentGroup{List: []*ast.Comment{c}})
			}
		}
	}
	r.file.Comments = keep
	ast.Inspect(r.file, func(n ast.Node) bool {
		switch d := n.(type) {
		case *ast.FuncDecl:
			d.Doc = nil
		case *ast.GenDecl:
			d.Doc = directiveOnly(d.Doc)
		case *ast.Field:
			d.Doc, d.Comment = nil, nil
		case *ast.ValueSpec:
			d.Doc, d.Comment = directiveOnly(d.Doc), nil
		case *ast.TypeSpec:
			d.Doc, d.Comment = nil, nil
		case *ast.ImportSpec:
			d.Doc, d.Comment = nil, nil
		}
		return true
	})
	r.file.Doc = nil
	return true
}

func directiveOnly(cg *ast.CommentGroup) *ast.CommentGroup {
	if cg == nil {
		return nil
	}
	var l []*ast.Comment
	for _, c := range cg.List {
		if strings.HasPrefix(c.Text, "//go:") {
			l = append(l, c)
		}
	}
	if len(l) == 0 {
		return nil
	}
	return &ast.CommentGroup{List: l}
}

// fixImports removes imports that are no longer referenced (decided with type
// information: an import is dropped when no identifier resolving to it remains).
func (r *rewriter) fixImports() {
	used := map[*types.PkgName]bool{}
	usedNames := map[string]bool{} // package qualifiers in code spliced in by the rewriter
	ast.Inspect(r.file, func(n ast.Node) bool {
		switch x := n.(type) {
		case *ast.Ident:
			if pn, ok := r.info.Uses[x].(*types.PkgName); ok {
				used[pn] = true
			}
		case *ast.SelectorExpr:
			if id, ok := x.X.(*ast.Ident); ok && r.info.Uses[id] == nil && r.info.Defs[id] == nil {
				usedNames[id.Name] = true
			}
		}
		return true
	})
	for _, imp := range append([]*ast.ImportSpec(nil), r.file.Imports...) {
		if imp == nil || imp.Path == nil {
			continue
		}
		if imp.Name != nil && (imp.Name.Name == "_" || imp.Name.Name == ".") {
			continue
		}
		var pn *types.PkgName
		if imp.Name != nil {
			pn, _ = r.info.Defs[imp.Name].(*types.PkgName)
		} else {
			pn, _ = r.info.Implicits[imp].(*types.PkgName)
		}
		if pn == nil || used[pn] || usedNames[pn.Name()] {
			continue
		}
		path, _ := strconv.Unquote(imp.Path.Value)
		name := ""
		if imp.Name != nil {
			name = imp.Name.Name
		}
		astutil.DeleteNamedImport(r.fset, r.file, name, path)
	}
}

func (r *rewriter) pre(c *astutil.Cursor) bool {
	n := c.Node()
	if n == nil {
		return true
	}
	if b, ok := n.(*ast.BlockStmt); ok && r.skip[b] {
		return false // replaced function body: hand-written against simrt/simos
	}
	switch x := n.(type) {
	case *ast.FuncLit:
		r.funcLit = append(r.funcLit, x)
	case *ast.SelectStmt:
		for _, cl := range x.Body.List {
			cc := cl.(*ast.CommClause)
			switch s := cc.Comm.(type) {
			case *ast.SendStmt:
				r.skip[s] = true
			case *ast.ExprStmt:
				r.skip[ast.Unparen(s.X)] = true
			case *ast.AssignStmt:
				if len(s.Rhs) == 1 {
					r.skip[ast.Unparen(s.Rhs[0])] = true
				}
			}
		}
	}
	return true
}

func (r *rewriter) post(c *astutil.Cursor) bool {
	n := c.Node()
	if n == nil {
		return true
	}
	switch x := n.(type) {
	case *ast.FuncLit:
		r.funcLit = r.funcLit[:len(r.funcLit)-1]
	case *ast.GoStmt:
		r.rewriteGo(c, x)
	case *ast.SendStmt:
		if r.skip[x] {
			return true
		}
		r.mark("send")
		c.Replace(&ast.ExprStmt{X: call(rt("Send"), x.Chan, x.Value, r.site(x.Pos()))})
	case *ast.UnaryExpr:
		if x.Op != token.ARROW || r.skip[x] {
			return true
		}
		r.mark("recv")
		fn := "Recv"
		switch p := c.Parent().(type) {
		case *ast.AssignStmt:
			if len(p.Lhs) == 2 && len(p.Rhs) == 1 {
				fn = "Recv2"
			}
		case *ast.ValueSpec:
			if len(p.Names) == 2 && len(p.Values) == 1 {
				fn = "Recv2"
			}
		}
		c.Replace(call(rt(fn), x.X, r.site(x.Pos())))
	case *ast.CallExpr:
		r.rewriteCall(c, x)
	case *ast.RangeStmt:
		r.rewriteRange(c, x)
	case *ast.SelectStmt:
		r.rewriteSelect(c, x)
	case *ast.IndexExpr:
		r.rewriteIndex(c, x)
	}
	return true
}

func (r *rewriter) mark(kind string) {
	r.changed = true
	r.useRT = true
	stats[kind]++
}

// ---------------------------------------------------------------- go statements

func (r *rewriter) rewriteGo(c *astutil.Cursor, g *ast.GoStmt) {
	r.mark("go")
	callx := g.Call
	site := r.site(g.Pos())
	var pre []ast.Stmt
	fun := callx.Fun
	if fl, ok := fun.(*ast.FuncLit); ok && len(callx.Args) == 0 && (fl.Type.Results == nil || len(fl.Type.Results.List) == 0) {
		c.Replace(&ast.ExprStmt{X: call(rt("Go"), site, fl)})
		return
	}
	if _, ok := fun.(*ast.FuncLit); !ok {
		// bind function / method value now (receiver evaluated at the go statement)
		tmp := ast.NewIdent("_simf")
		pre = append(pre, &ast.AssignStmt{Lhs: []ast.Expr{tmp}, Tok: token.DEFINE, Rhs: []ast.Expr{fun}})
		fun = tmp
	}
	var args []ast.Expr
	for i, a := range callx.Args {
		tv, ok := r.info.Types[a]
		if ok && (tv.Value != nil || tv.IsNil()) {
			args = append(args, a)
			continue
		}
		tmp := ast.NewIdent(fmt.Sprintf("_sima%d", i))
		pre = append(pre, &ast.AssignStmt{Lhs: []ast.Expr{tmp}, Tok: token.DEFINE, Rhs: []ast.Expr{a}})
		args = append(args, tmp)
	}
	inner := &ast.CallExpr{Fun: fun, Args: args, Ellipsis: callx.Ellipsis}
	if callx.Ellipsis.IsValid() {
		inner.Ellipsis = 1
	}
	lit := &ast.FuncLit{
		Type: &ast.FuncType{Params: &ast.FieldList{}},
		Body: &ast.BlockStmt{List: []ast.Stmt{&ast.ExprStmt{X: inner}}},
	}
	stmts := append(pre, &ast.ExprStmt{X: call(rt("Go"), site, lit)})
	c.Replace(&ast.BlockStmt{List: stmts})
}

// ---------------------------------------------------------------- calls

func (r *rewriter) rewriteCall(c *astutil.Cursor, x *ast.CallExpr) {
	// close(ch)
	if r.isBuiltin(x, "close") && len(x.Args) == 1 {
		r.mark("close")
		c.Replace(call(rt("Close"), x.Args[0], r.site(x.Pos())))
		return
	}
	// delete(m, k) on shared map
	if r.isBuiltin(x, "delete") && len(x.Args) == 2 {
		if isMap(r.typeOf(x.Args[0])) && r.shared(x.Args[0]) {
			r.mark("mapwrite")
			x.Args[0] = call(r.mapW(x.Args[0]), x.Args[0], r.site(x.Pos()))
		}
		return
	}
	pkg, recv, name, sel := r.methodOf(x)
	if sel != nil {
		switch {
		case pkg == "sync" && recv == "Mutex":
			fn := map[string]string{"Lock": "Lock", "Unlock": "Unlock", "TryLock": "TryLock"}[name]
			if fn != "" {
				if s := r.info.Selections[sel]; len(s.Index()) > 1 {
					unsup(r.fset, x.Pos(), "embedded sync.Mutex")
					return
				}
				r.mark("mutex")
				c.Replace(call(rt(fn), r.addrOf(sel.X), r.site(x.Pos())))
			}
			return
		case pkg == "sync" && recv == "RWMutex":
			fn := map[string]string{"Lock": "RWLock", "Unlock": "RWUnlock", "RLock": "RWRLock", "RUnlock": "RWRUnlock"}[name]
			if fn != "" {
				if s := r.info.Selections[sel]; len(s.Index()) > 1 {
					unsup(r.fset, x.Pos(), "embedded sync.RWMutex")
					return
				}
				r.mark("mutex")
				c.Replace(call(rt(fn), r.addrOf(sel.X), r.site(x.Pos())))
			} else if name == "TryLock" || name == "TryRLock" {
				unsup(r.fset, x.Pos(), "RWMutex.Try*")
			}
			return
		case pkg == "sync" && recv == "Once" && name == "Do":
			r.mark("once")
			c.Replace(call(rt("OnceDo"), r.addrOf(sel.X), x.Args[0], r.site(x.Pos())))
			return
		case pkg == "sync" && recv == "WaitGroup" && name == "Wait":
			r.mark("block")
			c.Replace(call(rt("Block0"), x.Fun, r.site(x.Pos())))
			return
		case pkg == "sync" && recv == "Cond":
			unsup(r.fset, x.Pos(), "sync.Cond")
			return
		case strings.HasPrefix(pkg, "github.com/alitto/pond"):
			switch name {
			case "SubmitErr":
				r.mark("pond-submit")
				x.Args[0] = call(rt("WrapErr"), x.Args[0], r.site(x.Pos()))
			case "Submit", "Go":
				r.mark("pond-submit")
				x.Args[0] = call(rt("Wrap"), x.Args[0], r.site(x.Pos()))
			case "Wait", "StopAndWait":
				r.blockingCall(c, x)
			case "TrySubmit", "TrySubmitErr", "NewGroup", "NewGroupContext", "NewSubpool":
				unsup(r.fset, x.Pos(), "pond."+name)
			}
			return
		case pkg == "golang.org/x/sync/errgroup" && (name == "Wait" || name == "Go"):
			unsup(r.fset, x.Pos(), "errgroup")
			return
		case pkg == "golang.org/x/sync/semaphore" && name == "Acquire":
			r.blockingCall(c, x)
			return
		}
	}
	if p, fn := r.pkgFunc(x); p != "" {
		switch {
		case p == "time" && fn == "Sleep":
			r.blockingCall(c, x)
			return
		}
		r.rewritePkgCall(c, x, p, fn)
	}
	if sel != nil {
		r.rewriteMethodCall(c, x, pkg, recv, name, sel)
	}
}

// blockingCall wraps a call that may block durably so that a sim point precedes and follows it.
func (r *rewriter) blockingCall(c *astutil.Cursor, x *ast.CallExpr) {
	r.mark("block")
	site := r.site(x.Pos())
	nres := 0
	if t, ok := r.typeOf(x).(*types.Tuple); ok {
		nres = t.Len()
	} else if t := r.typeOf(x); t != nil {
		if tt, ok := t.(*types.Tuple); !ok || tt.Len() > 0 {
			nres = 1
		}
	}
	if tv, ok := r.info.Types[x]; ok && tv.IsVoid() {
		nres = 0
	}
	switch {
	case nres == 0:
		lit := &ast.FuncLit{Type: &ast.FuncType{Params: &ast.FieldList{}}, Body: &ast.BlockStmt{List: []ast.Stmt{&ast.ExprStmt{X: x}}}}
		c.Replace(call(rt("Block0"), lit, site))
	case nres == 1 && len(x.Args) == 0:
		c.Replace(call(rt("Block1"), x.Fun, site))
	case nres == 1:
		c.Replace(call(rt("Post"), call(rt("Pre"), site), x))
	case nres == 2 && len(x.Args) == 0:
		c.Replace(call(rt("Block2"), x.Fun, site))
	default:
		unsup(r.fset, x.Pos(), "blocking call with arguments and several results")
	}
}

// ---------------------------------------------------------------- range

func (r *rewriter) rewriteRange(c *astutil.Cursor, x *ast.RangeStmt) {
	t := r.typeOf(x.X)
	if t == nil {
		return
	}
	site := r.site(x.Pos())
	switch {
	case isChan(t):
		r.mark("range-chan")
		if !pureExpr(x.X) {
			unsup(r.fset, x.Pos(), "range over non-trivial channel expression")
			return
		}
		ok := ast.NewIdent("_simok")
		var first ast.Stmt
		recv := call(rt("Recv2"), x.X, site)
		switch {
		case x.Key == nil:
			first = &ast.AssignStmt{Lhs: []ast.Expr{ast.NewIdent("_"), ok}, Tok: token.DEFINE, Rhs: []ast.Expr{recv}}
		case x.Tok == token.DEFINE:
			first = &ast.AssignStmt{Lhs: []ast.Expr{x.Key, ok}, Tok: token.DEFINE, Rhs: []ast.Expr{recv}}
		default:
			unsup(r.fset, x.Pos(), "range over channel with assignment")
			return
		}
		brk := &ast.IfStmt{Cond: &ast.UnaryExpr{Op: token.NOT, X: ok}, Body: &ast.BlockStmt{List: []ast.Stmt{&ast.BranchStmt{Tok: token.BREAK}}}}
		body := append([]ast.Stmt{first, brk}, x.Body.List...)
		c.Replace(&ast.ForStmt{Body: &ast.BlockStmt{List: body}})
	case isMap(t):
		if x.Tok == token.ASSIGN {
			report = append(report, fmt.Sprintf("%s: range over map with '=' left untouched (iteration order not controlled)", r.fset.Position(x.Pos())))
			return
		}
		r.mark("range-map")
		m := x.X
		if r.shared(m) {
			m = call(rt("MapR"), m, site)
		}
		keys := call(rt("MapKeys"), m, site)
		keyIdent := func(e ast.Expr) bool {
			id, ok := e.(*ast.Ident)
			return ok && id.Name != "_"
		}
		if x.Value == nil || !keyIdent(x.Value) {
			// only keys (or nothing) needed
			var k ast.Expr
			if x.Key != nil && keyIdent(x.Key) {
				k = x.Key
			}
			ns := &ast.RangeStmt{X: keys, Body: x.Body, Tok: token.ILLEGAL}
			if k != nil {
				ns.Key, ns.Value, ns.Tok = ast.NewIdent("_"), k, token.DEFINE
			}
			c.Replace(ns)
			return
		}
		if !pureExpr(x.X) {
			// evaluate the map once: only possible when the statement is not labelled
			if _, lab := c.Parent().(*ast.LabeledStmt); lab {
				unsup(r.fset, x.Pos(), "labelled range over a non-trivial map expression")
				return
			}
			tmp := ast.NewIdent("_simm")
			mm := ast.Expr(tmp)
			if r.shared(x.X) {
				mm = call(rt("MapR"), tmp, site)
			}
			inner := r.mapLoop(x, tmp, call(rt("MapKeys"), mm, site))
			c.Replace(&ast.BlockStmt{List: []ast.Stmt{
				&ast.AssignStmt{Lhs: []ast.Expr{tmp}, Tok: token.DEFINE, Rhs: []ast.Expr{x.X}},
				inner,
			}})
			return
		}
		c.Replace(r.mapLoop(x, x.X, keys))
	}
}

func (r *rewriter) mapLoop(x *ast.RangeStmt, m ast.Expr, keys ast.Expr) ast.Stmt {
	var k *ast.Ident
	if id, ok := x.Key.(*ast.Ident); ok && id.Name != "_" {
		k = id
	} else {
		k = ast.NewIdent("_simk")
	}
	ok := ast.NewIdent("_simok")
	mr := m
	if r.shared(x.X) {
		mr = call(rt("MapR"), m, r.site(x.Pos()))
	}
	look := &ast.AssignStmt{Lhs: []ast.Expr{x.Value, ok}, Tok: token.DEFINE, Rhs: []ast.Expr{&ast.IndexExpr{X: mr, Index: k}}}
	cont := &ast.IfStmt{Cond: &ast.UnaryExpr{Op: token.NOT, X: ok}, Body: &ast.BlockStmt{List: []ast.Stmt{&ast.BranchStmt{Tok: token.CONTINUE}}}}
	body := append([]ast.Stmt{look, cont}, x.Body.List...)
	return &ast.RangeStmt{Key: ast.NewIdent("_"), Value: k, Tok: token.DEFINE, X: keys, Body: &ast.BlockStmt{List: body}}
}

// ---------------------------------------------------------------- map index

func (r *rewriter) rewriteIndex(c *astutil.Cursor, x *ast.IndexExpr) {
	if !isMap(r.typeOf(x.X)) || !r.shared(x.X) {
		return
	}
	// already wrapped (range rewrite builds m[k] itself, those nodes are new and not visited)
	write := false
	switch p := c.Parent().(type) {
	case *ast.AssignStmt:
		for _, l := range p.Lhs {
			if l == ast.Expr(x) {
				write = true
			}
		}
	case *ast.IncDecStmt:
		write = p.X == ast.Expr(x)
	}
	site := r.site(x.Pos())
	if write {
		r.mark("mapwrite")
		x.X = call(r.mapW(x.X), x.X, site)
	} else {
		r.mark("mapread")
		x.X = call(rt("MapR"), x.X, site)
	}
}

// ---------------------------------------------------------------- select

func (r *rewriter) rewriteSelect(c *astutil.Cursor, x *ast.SelectStmt) {
	if len(x.Body.List) == 0 {
		return // select {} blocks forever
	}
	if _, lab := c.Parent().(*ast.LabeledStmt); lab {
		unsup(r.fset, x.Pos(), "labelled select")
		return
	}
	r.mark("select")
	r.nsel++
	id := r.nsel
	site := r.site(x.Pos())
	selv := ast.NewIdent(fmt.Sprintf("_simsel%d", id))
	stmts := []ast.Stmt{&ast.AssignStmt{Lhs: []ast.Expr{selv}, Tok: token.DEFINE, Rhs: []ast.Expr{call(rt("NewSelect"), site)}}}
	var clauses []ast.Stmt
	idx := 0
	intLit := func(i int) ast.Expr { return &ast.BasicLit{Kind: token.INT, Value: strconv.Itoa(i)} }
	for _, cl := range x.Body.List {
		cc := cl.(*ast.CommClause)
		if cc.Comm == nil {
			stmts = append(stmts, &ast.ExprStmt{X: call(&ast.SelectorExpr{X: selv, Sel: ast.NewIdent("Default")})})
			clauses = append(clauses, &ast.CaseClause{List: []ast.Expr{&ast.UnaryExpr{Op: token.SUB, X: intLit(1)}}, Body: cc.Body})
			continue
		}
		chv := ast.NewIdent(fmt.Sprintf("_simc%d_%d", id, idx))
		body := cc.Body
		switch s := cc.Comm.(type) {
		case *ast.SendStmt:
			stmts = append(stmts,
				&ast.AssignStmt{Lhs: []ast.Expr{chv}, Tok: token.DEFINE, Rhs: []ast.Expr{s.Chan}},
				&ast.ExprStmt{X: call(rt("SelSend"), selv, chv, s.Value)})
		case *ast.ExprStmt:
			u := ast.Unparen(s.X).(*ast.UnaryExpr)
			stmts = append(stmts,
				&ast.AssignStmt{Lhs: []ast.Expr{chv}, Tok: token.DEFINE, Rhs: []ast.Expr{u.X}},
				&ast.ExprStmt{X: call(rt("SelRecv"), selv, chv)})
		case *ast.AssignStmt:
			u := ast.Unparen(s.Rhs[0]).(*ast.UnaryExpr)
			stmts = append(stmts,
				&ast.AssignStmt{Lhs: []ast.Expr{chv}, Tok: token.DEFINE, Rhs: []ast.Expr{u.X}},
				&ast.ExprStmt{X: call(rt("SelRecv"), selv, chv)})
			fn := "RecvAs1"
			if len(s.Lhs) == 2 {
				fn = "RecvAs"
			}
			get := &ast.AssignStmt{Lhs: s.Lhs, Tok: s.Tok, Rhs: []ast.Expr{call(rt(fn), selv, intLit(idx), chv)}}
			body = append([]ast.Stmt{get}, body...)
		}
		clauses = append(clauses, &ast.CaseClause{List: []ast.Expr{intLit(idx)}, Body: body})
		idx++
	}
	clauses = append(clauses, &ast.CaseClause{List: nil, Body: []ast.Stmt{
		&ast.ExprStmt{X: call(ast.NewIdent("panic"), &ast.BasicLit{Kind: token.STRING, Value: `"simrt: unreachable select case"`})},
	}})
	sw := &ast.SwitchStmt{Tag: call(&ast.SelectorExpr{X: selv, Sel: ast.NewIdent("Wait")}), Body: &ast.BlockStmt{List: clauses}}
	stmts = append(stmts, sw)
	c.Replace(&ast.BlockStmt{List: stmts})
}
