package main

import (
	"fmt"
	"go/ast"
	"go/parser"
	"go/token"
	"strconv"

	"golang.org/x/tools/go/ast/astutil"
)

// os functions that are routed through simos (same name, site appended).
var osFuncs = map[string]bool{
	"Open": true, "OpenFile": true, "Create": true, "CreateTemp": true, "MkdirAll": true, "Mkdir": true,
	"MkdirTemp": true, "Remove": true, "RemoveAll": true, "Rename": true, "Stat": true, "Lstat": true,
	"ReadDir": true, "ReadFile": true, "WriteFile": true, "Readlink": true, "Symlink": true, "Chmod": true,
	"Link": true, "Truncate": true, "Chtimes": true, "Chown": true, "Lchown": true, "Getwd": true, "Chdir": true, "Environ": true, "Getpid": true, "Exit": true, "FindProcess": true,
}

// os functions that touch durable state but have no simos counterpart: refuse to guess.
var osUnsupported = map[string]bool{
	"StartProcess": true, "CopyFS": true, "Pipe": true, "Getppid": true,
}

var fileMethods = map[string]string{
	"Write": "FileWrite", "WriteString": "FileWriteString", "Read": "FileRead", "Close": "FileClose",
	"Stat": "FileStat", "Chmod": "FileChmod", "Sync": "FileSync", "Truncate": "FileTruncate",
}

var fileMethodsUnsupported = map[string]bool{"WriteAt": true, "ReadFrom": true, "Chown": true}

func sos(name string) ast.Expr {
	return &ast.SelectorExpr{X: ast.NewIdent("simos"), Sel: ast.NewIdent(name)}
}

func (r *rewriter) markOS(kind string) {
	r.changed = true
	r.useOS = true
	stats[kind]++
}

func (r *rewriter) rewritePkgCall(c *astutil.Cursor, x *ast.CallExpr, pkg, fn string) {
	site := r.site(x.Pos())
	switch {
	case pkg == "os" && osFuncs[fn]:
		r.markOS("os-call")
		x.Fun = sos(fn)
		if x.Ellipsis.IsValid() {
			unsup(r.fset, x.Pos(), "variadic os call")
			return
		}
		x.Args = append(x.Args, site)
	case pkg == "os" && osUnsupported[fn]:
		unsup(r.fset, x.Pos(), "os."+fn+" has no simos counterpart")
	case pkg == "io" && (fn == "Copy" || fn == "ReadAll"):
		r.markOS("io-call")
		x.Fun = sos(fn)
		x.Args = append(x.Args, site)
	case pkg == "io" && (fn == "CopyN" || fn == "CopyBuffer"):
		r.markOS("io-call")
		x.Fun = sos(fn)
		x.Args = append(x.Args, site)
	case pkg == "io/ioutil":
		unsup(r.fset, x.Pos(), "io/ioutil."+fn)
	case pkg == "path/filepath" && fn == "Walk":
		r.markOS("walk")
		x.Fun = sos("Walk")
		x.Args = append(x.Args, site)
	case pkg == "path/filepath" && fn == "WalkDir":
		r.markOS("walk")
		x.Fun = sos("WalkDir")
		x.Args = append(x.Args, site)
	case pkg == "os/signal" && fn == "Notify":
		r.markOS("signal")
		x.Fun = sos("SignalNotify")
	case pkg == "os/signal":
		unsup(r.fset, x.Pos(), "os/signal."+fn)
	case pkg == "context" && fn == "AfterFunc":
		// the standard library would run the callback in a goroutine of its own
		r.changed = true
		r.useRT = true
		stats["afterfunc"]++
		x.Fun = rt("AfterFuncCtx")
		x.Args = append(x.Args, site)
	case pkg == "time" && fn == "AfterFunc":
		unsup(r.fset, x.Pos(), "time.AfterFunc (callback goroutine outside the scheduler)")
	case pkg == "runtime" && fn == "NumCPU":
		// tuning knob: pool sizes derived from the CPU count are randomised per simulated process
		r.markOS("numcpu")
		x.Fun = sos("NumCPU")
	case pkg == "github.com/boyter/gocodewalker" && (fn == "NewParallelFileWalker" || fn == "NewFileWalker"):
		r.markOS("filewalker")
		x.Fun = sos("NewFileWalker")
	}
}

func (r *rewriter) rewriteMethodCall(c *astutil.Cursor, x *ast.CallExpr, pkg, recv, name string, sel *ast.SelectorExpr) {
	switch {
	case pkg == "os" && recv == "File":
		if fn, ok := fileMethods[name]; ok {
			r.markOS("file-method")
			args := append([]ast.Expr{sel.X}, x.Args...)
			args = append(args, r.site(x.Pos()))
			c.Replace(&ast.CallExpr{Fun: sos(fn), Args: args})
		} else if fileMethodsUnsupported[name] {
			unsup(r.fset, x.Pos(), "(*os.File)."+name)
		}
	case pkg == "go.uber.org/zap" && recv == "Config" && name == "Build":
		r.markOS("zap-build")
		if x.Ellipsis.IsValid() {
			unsup(r.fset, x.Pos(), "zap Config.Build with a variadic argument")
			return
		}
		c.Replace(&ast.CallExpr{Fun: sos("ZapBuild"), Args: append([]ast.Expr{sel.X}, x.Args...)})
	}
}

// ---------------------------------------------------------------- import substitution

func (r *rewriter) substituteImports() {
	for _, imp := range r.file.Imports {
		path, _ := strconv.Unquote(imp.Path.Value)
		if path == "os/exec" {
			name := "exec"
			if imp.Name != nil {
				name = imp.Name.Name
			}
			imp.Path = &ast.BasicLit{Kind: token.STRING, Value: strconv.Quote(simexecPath), ValuePos: imp.Path.ValuePos}
			imp.Name = &ast.Ident{Name: name, NamePos: imp.Path.ValuePos}
			imp.EndPos = 0
			r.changed = true
			stats["import-os/exec"]++
		}
	}
}

// ---------------------------------------------------------------- body replacements

type bodyRepl struct {
	pkg, fn string
	params  int
	src     string
	needOS  bool
}

var bodyRepls = []bodyRepl{
	{
		pkg: "grog/internal/console", fn: "StartTaskUI", params: 1, needOS: true,
		src: `{
	wrappedCtx, cancel := context.WithCancel(ctx)
	simos.RegisterUICancel(cancel)
	deadCtx, deadCancel := context.WithCancel(context.Background())
	deadCancel()
	p := tea.NewProgram(nil, tea.WithContext(deadCtx), tea.WithInput(nil), tea.WithoutRenderer())
	sendFunc := func(msg tea.Msg) {}
	return WithTeaLogger(wrappedCtx, p), p, sendFunc
}`,
	},
	{
		pkg: "grog/internal/caching/backends", fn: "NewS3Cache", params: 2, needOS: true,
		src: `{
	client, ok := simos.Hook("s3client").(S3Client)
	if !ok {
		return nil, fmt.Errorf("simulation: no fake S3 client installed")
	}
	return NewS3CacheWithClient(ctx, cacheConfig, client)
}`,
	},
}

var replaced = map[string]bool{}

func (r *rewriter) replaceBodies() {
	r.substituteImports()
	for _, br := range bodyRepls {
		if r.pkg.Path() != br.pkg {
			continue
		}
		for _, d := range r.file.Decls {
			fd, ok := d.(*ast.FuncDecl)
			if !ok || fd.Recv != nil || fd.Name.Name != br.fn || fd.Body == nil {
				continue
			}
			if fd.Type.Params.NumFields() != br.params {
				unsup(r.fset, fd.Pos(), fmt.Sprintf("stub target %s.%s changed its signature", br.pkg, br.fn))
				continue
			}
			src := "package p\nfunc _() " + br.src
			f, err := parser.ParseFile(r.fset, fmt.Sprintf("simrepl_%s.go", br.fn), src, 0)
			if err != nil {
				unsup(r.fset, fd.Pos(), "cannot parse replacement body: "+err.Error())
				continue
			}
			fd.Body = f.Decls[0].(*ast.FuncDecl).Body
			r.skip[fd.Body] = true
			r.changed = true
			if br.needOS {
				r.useOS = true
			}
			replaced[br.pkg+"."+br.fn] = true
			stats["body-replaced"]++
		}
	}
}

// checkReplaced reports stub targets that were not found (exit 2).
func checkReplaced() {
	for _, br := range bodyRepls {
		if !replaced[br.pkg+"."+br.fn] {
			unsupported = append(unsupported, fmt.Sprintf("SIMREWRITE-UNSUPPORTED stub target %s.%s not found", br.pkg, br.fn))
		}
	}
}
