package main

import (
	"go/ast"

	"golang.org/x/tools/go/ast/astutil"
)

func (r *rewriter) replaceBodies() {}

func (r *rewriter) rewritePkgCall(c *astutil.Cursor, x *ast.CallExpr, pkg, fn string) {}

func (r *rewriter) rewriteMethodCall(c *astutil.Cursor, x *ast.CallExpr, pkg, recv, name string, sel *ast.SelectorExpr) {
}
