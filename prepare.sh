#!/bin/bash
# prepare.sh <scratch-dir>: copy /repo's working tree, overlay sim + harness, rewrite, build worker.
# exit 2 on any infrastructure failure.
set -u
SCRATCH="$1"
REPO="${VERIF_REPO:-/repo}"
HERE="$(cd "$(dirname "$0")" && pwd)"
export GOFLAGS=-mod=mod GOPROXY=off GOSUMDB=off GOTOOLCHAIN=local
export PATH=/opt/veriftools/go1.26.8/bin:$PATH
GO=go1.26.8
rm -rf "$SCRATCH/grog"; mkdir -p "$SCRATCH/grog" || exit 2
rsync -a --exclude .git --exclude docs --exclude examples --exclude integration --exclude pkl --exclude '*_test.go' "$REPO"/ "$SCRATCH/grog"/ || exit 2
rsync -a "$HERE/_overlay/" "$SCRATCH/grog/" || exit 2
cd "$SCRATCH/grog" || exit 2
$GO mod edit -require=github.com/anishathalye/porcupine@v1.3.0 || exit 2
"$HERE/bin/simrewrite" "$SCRATCH/grog" > "$SCRATCH/rewrite.log" 2>&1 || { cat "$SCRATCH/rewrite.log"; echo "INFRA: simrewrite failed"; exit 2; }
$GO test -c -o "$SCRATCH/simworker" ./internal/zzharness > "$SCRATCH/build.log" 2>&1 || { head -50 "$SCRATCH/build.log"; echo "INFRA: worker build failed"; exit 2; }
exit 0
