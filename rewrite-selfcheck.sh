#!/bin/bash
# Semantic-preservation check of the rewriter: the repository's own unit tests must pass on
# the rewritten copy in pass-through mode (no scheduler installed).
set -u
HERE="$(cd "$(dirname "$0")" && pwd)"
S=/dev/shm/verif-selfcheck-$$
export GOFLAGS=-mod=mod GOPROXY=off GOSUMDB=off GOTOOLCHAIN=local
export PATH=/opt/veriftools/go1.26.8/bin:$PATH
rm -rf "$S"; mkdir -p "$S/grog"
rsync -a --exclude .git --exclude docs --exclude examples --exclude pkl /repo/ "$S/grog"/
rsync -a "$HERE/_overlay/" "$S/grog"/
(cd "$S/grog" && go1.26.8 mod edit -require=github.com/anishathalye/porcupine@v1.3.0) || { rm -rf "$S"; exit 2; }
"$HERE/bin/simrewrite" "$S/grog" > "$S/rewrite.log" 2>&1 || { cat "$S/rewrite.log"; rm -rf "$S"; exit 2; }
cd "$S/grog" && go1.26.8 test -vet=off -count=1 -skip "TestStartTaskUI|TestRunWithConcurrentShutdown" $(go1.26.8 list ./internal/... | grep -v -e zzharness -e completions) 2>&1 | grep -v "no test files" | tail -30
rc=${PIPESTATUS[0]}
rm -rf "$S"
exit $rc
