#!/bin/bash
# eval_seeded.sh <id> [props...]: run quick checks against a seeded change applied in a scratch
# worktree (VERIF_REPO) and record what was detected.
set -u
HERE="$(cd "$(dirname "$0")/.." && pwd)"
ID=$1; shift
PROPS="$@"
[ -z "$PROPS" ] && PROPS=$(echo $ID | cut -d- -f1)
WT=/tmp/eval-$ID-$$
git -C /repo worktree remove --force $WT 2>/dev/null
git -C /repo worktree add -q --detach $WT HEAD || exit 2
git -C $WT apply $HERE/seeded/$ID/patch.diff || { echo "$ID: patch does not apply"; git -C /repo worktree remove --force $WT; exit 2; }
OUT=$HERE/seeded/$ID/result.txt
: > $OUT
for P in $PROPS; do
  echo "### check $P (budget ${BUDGET:-40}s)" >> $OUT
  VERIF_REPO=$WT VERIF_BUDGET_S=${BUDGET:-40} VERIF_WORKERS=${WORKERS:-8} $HERE/bin/simctl check $P --tier quick 2>&1 | grep -E "^(---|VIOLATION|simctl: C|INFRA|ANOMALY|KNOWN)" | cut -c1-400 >> $OUT
  echo "exit=${PIPESTATUS[0]}" >> $OUT
done
git -C /repo worktree remove --force $WT
echo "== $ID"; grep -E "^(VIOLATION|ANOMALY|INFRA|exit|###)" $OUT | cut -c1-200
