#!/usr/bin/env python3
"""eval_benign.py [ids...]: behaviour-preserving refactors (seeded/benign/<id>/patch.diff) applied in a
scratch worktree; every listed quick check must stay quiet (exit 0, no VIOLATION line).
Results: seeded/benign/<id>/result.txt and seeded/benign/RESULTS.md."""
import os, subprocess, sys, glob, re
HERE = os.path.dirname(os.path.dirname(os.path.abspath(__file__)))
CHECKS = {
    "A1": ["C03", "C04", "C05", "C18"], "A2": ["C03", "C04", "C05", "C18"], "A3": ["C01", "C02", "C03", "C13", "C14", "C15"],
    "B1": ["C08", "C07"], "B2": ["C07", "C01", "C18"], "B3": ["C01", "C06", "C07", "C14", "C05", "C08"],
    "C1": ["C14", "C05", "C18"], "C2": ["C12", "C01"], "C3": ["C10", "C18", "C04"], "N1": ["C15", "C03", "C01"],
}
BUDGET = os.environ.get("BUDGET", "40")
ids = sys.argv[1:] or sorted(os.path.basename(os.path.dirname(p)) for p in glob.glob(os.path.join(HERE, "seeded/benign/*/patch.diff")))
rows = []
for id_ in ids:
    d = os.path.join(HERE, "seeded/benign", id_)
    wt = "/tmp/evalbenign-%s-%d" % (id_, os.getpid())
    subprocess.run(["git", "-C", "/repo", "worktree", "remove", "--force", wt], stderr=subprocess.DEVNULL)
    subprocess.run(["git", "-C", "/repo", "worktree", "add", "-q", "--detach", wt, "HEAD"], check=True)
    out, verdicts = [], []
    try:
        if subprocess.run(["git", "-C", wt, "apply", os.path.join(d, "patch.diff")]).returncode != 0:
            rows.append((id_, "PATCH-DOES-NOT-APPLY")); continue
        for prop in (os.environ.get("PROPS", "").split() or CHECKS.get(id_, ["C01", "C04", "C07"])):
            env = dict(os.environ, VERIF_REPO=wt, VERIF_BUDGET_S=BUDGET, VERIF_WORKERS="16")
            p = subprocess.run([os.path.join(HERE, "bin/simctl"), "check", prop, "--tier", "quick"], env=env, stdout=subprocess.PIPE, stderr=subprocess.STDOUT, text=True)
            lines = [l[:600] for l in p.stdout.splitlines() if re.match(r"^(---|VIOLATION|simctl: C|INFRA|ANOMALY|KNOWN)", l)]
            out.append("### check %s exit=%d" % (prop, p.returncode)); out += lines
            verdicts.append("%s:%s" % (prop, {0: "quiet", 1: "ALARM", 2: "INFRA"}.get(p.returncode, "?")))
    finally:
        subprocess.run(["git", "-C", "/repo", "worktree", "remove", "--force", wt])
        open(os.path.join(d, "result.txt"), "w").write("\n".join(out) + "\n")
    rows.append((id_, " ".join(verdicts)))
    print(rows[-1], flush=True)
rp = os.path.join(HERE, "seeded/benign/RESULTS.md")
res = {}
if os.path.exists(rp):
    for l in open(rp):
        m = re.match(r"^\| (\w+) \| (.*?) \|$", l)
        if m and m.group(1) != "change":
            res[m.group(1)] = m.group(2)
for id_, v in rows:
    res[id_] = v
with open(rp, "w") as f:
    f.write("# Behaviour-preserving refactors: every quick check must stay quiet\n\n| change | checks |\n|---|---|\n")
    for k in sorted(res):
        f.write("| %s | %s |\n" % (k, res[k]))
