#!/usr/bin/env python3
# show.py <glob of worker jsonl> <prop> <class> [n]: print examples of a violation class
import json,glob,sys
pat,prop,cls=sys.argv[1:4]; n=int(sys.argv[4]) if len(sys.argv)>4 else 1
for f in sorted(glob.glob(pat)):
    for l in open(f):
        if not l.startswith('{"world"'): continue
        r=json.loads(l)
        for v in r.get('violations',[]):
            if v['prop']==prop and v['class']==cls and n>0:
                n-=1
                d=r.get('decoded') or {}
                print('=== seed',r['seed'],'features',d.get('features'))
                u=d.get('universe',{})
                for k,s in sorted(u.get('specs',{}).items()): print('  ',k,{x:y for x,y in s.items() if x not in('pkg','name')})
                print('   aliases',u.get('aliases'),' files',u.get('files'),' ext',u.get('ext'))
                for h in d.get('history',[]): print('  H',json.dumps(h))
                print(v['signature']); print(v['detail'][:3000])
