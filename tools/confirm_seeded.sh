#!/bin/bash
# confirm_seeded.sh <srcdir> <id>: confirm a seeded change in a scratch worktree of /repo HEAD
# (demo passes without, build + suite OK and demo fails with) and store it under /verif/seeded/<id>/
set -u
SRC=$1; ID=$2
export GOFLAGS=-mod=mod GOPROXY=off GOSUMDB=off GOTOOLCHAIN=local
WT=/tmp/confirm-$ID
DEST=$(grep -oE 'internal/[a-zA-Z0-9_/]+_test\.go' $SRC/README.md | sort -u | head -1)
RUN=$(grep -oE "\-run '?Test[A-Za-z0-9_|^$]+'?" $SRC/README.md | head -1 | sed "s/-run //; s/'//g")
PKG=./$(dirname $DEST)/
git -C /repo worktree remove --force $WT 2>/dev/null; git -C /repo worktree add -q --detach $WT HEAD || exit 2
cp $SRC/demo_test.go $WT/$DEST
cd $WT
r1=$(go1.26.8 test -vet=off -count=1 -run "$RUN" $PKG 2>&1 | tail -1)
git apply $SRC/patch.diff || { echo "$ID: patch does not apply"; exit 2; }
b=$(go1.26.8 build ./... 2>&1 | tail -2)
r2=$(go1.26.8 test -vet=off -count=1 -run "$RUN" $PKG 2>&1 | tail -1)
rm -f $WT/$DEST
suite=$(go1.26.8 test -vet=off -count=1 -skip TestRunWithConcurrentShutdown $(go1.26.8 list ./internal/... | grep -v completions) 2>&1 | grep -E "^(FAIL|---)" | head -5)
cd /; git -C /repo worktree remove --force $WT
ok=no
if echo "$r1" | grep -q '^ok' && echo "$r2" | grep -q -E 'FAIL' && [ -z "$b" ] && [ -z "$suite" ]; then ok=yes; fi
echo "$ID: demo-without=[$r1] build=[$b] demo-with=[$r2] suite-failures=[$suite] confirmed=$ok"
if [ $ok = yes ]; then
  mkdir -p /verif/seeded/$ID
  cp $SRC/patch.diff $SRC/demo_test.go $SRC/README.md /verif/seeded/$ID/
  python3 - "$ID" "$DEST" "$RUN" "$PKG" <<'PY'
import json,sys
id_,dest,run,pkg=sys.argv[1:5]
prop=id_.split('-')[0]
json.dump({"id":id_,"property":prop,"demo_dest":dest,"demo_run":"go1.26.8 test -vet=off -count=1 -run '%s' %s"%(run,pkg),
  "confirmed":"demo passes on /repo HEAD, fails with patch; build OK; unit suite (minus completions, flaky TestRunWithConcurrentShutdown) green with patch",
  "needs":"see README.md","detected_by":[]}, open('/verif/seeded/%s/meta.json'%id_,'w'), indent=1)
PY
fi
