#!/bin/bash
# final_evidence.sh: run every claimed quick check from /verif against /repo's current working tree
# (evidence/<id>.json is rewritten by each run) and print one summary line per property.
cd "$(dirname "$0")/.."
rc=0
for p in $(python3 -c "import json;print(' '.join(c['property_id'] for c in json.load(open('MANIFEST.json'))['checks']))"); do
  out=$(./bin/simctl check $p --tier quick 2>&1); r=$?
  echo "$out" | grep -E "^(VIOLATION|simctl: C|INFRA|KNOWN)" | cut -c1-240
  echo "== $p exit=$r"
  [ $r -ne 0 ] && rc=1
done
exit $rc
