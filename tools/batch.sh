#!/bin/bash
# batch.sh <world> <seed> <count-per-worker> [params] : NW (default 8) workers into $T (default /dev/shm/t1)/o*.jsonl, then tabulate
T=${T:-/dev/shm/t1}; NW=${NW:-8}
cd $T; rm -f o*.jsonl
for w in $(seq 0 $((NW-1))); do SIM_SCRATCH=$T GOMAXPROCS=1 SIM_MODE=batch SIM_WORLD=$1 SIM_SEED=$2 SIM_FROM=$w SIM_STRIDE=$NW SIM_COUNT=$3 SIM_PARAMS="$4" SIM_OUT=o$w.jsonl ./simworker -test.run '^TestSim$' -test.timeout 0 >w$w.log 2>&1 & done; wait
grep -l -E "panic|fatal error|INFRA" w*.log | head
T=$T python3 - <<'PY'
import json,collections,glob
runs=[]
for f in glob.glob(__import__('os').environ['T']+'/o*.jsonl'):
    runs+=[json.loads(l) for l in open(f) if l.startswith('{"world"')]
print(len(runs), 'runs; steps avg', sum(r['steps'] for r in runs)/max(1,len(runs)), 'wall ms avg', sum(r['wall_us'] for r in runs)/max(1,len(runs))/1000)
c=collections.Counter()
for r in runs:
    for v in r.get('violations',[]):
        c[(v['prop'],v['class'],v['signature'][:110])]+=1
for k,v in sorted(c.items(), key=lambda x:-x[1]): print(v,k)
f=collections.Counter(); p=collections.Counter()
for r in runs:
    for k,v in (r.get('faults') or {}).items(): f[k]+=v
    for k,v in (r.get('probes') or {}).items(): p[k]+=v
print('faults',dict(f)); print('probes',dict(p))
PY
