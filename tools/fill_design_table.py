#!/usr/bin/env python3
"""Replace DESIGN.md section 11.7 with the tables of seeded/RESULTS.md and seeded/benign/RESULTS.md."""
import os, re
HERE = os.path.dirname(os.path.dirname(os.path.abspath(__file__)))
d = open(os.path.join(HERE, "DESIGN.md")).read()
i = d.index("### 11.7 ")
j = d.index("\n### 11.8 ", i) if "\n### 11.8 " in d[i:] else d.index("\n## Appendix A", i)
rows = [l for l in open(os.path.join(HERE, "seeded/RESULTS.md")) if l.startswith("| C")]
ben = [l for l in open(os.path.join(HERE, "seeded/benign/RESULTS.md")) if re.match(r"^\| [ABCN]\d", l)]
det = sum(1 for l in rows if "MISSED" not in l and "INFRA" not in l and "DOES-NOT" not in l)
body = """### 11.7 Which check catches which seeded change (quick tier unless noted)

Every change below was written by a sub-agent that saw only the text of one property and a
scratch worktree (never `/verif`), compiles, keeps the repository's unit suite green, and was
confirmed here with its own demonstration (passes on `/repo` HEAD, fails with the change) before
it was stored under `seeded/<id>/`. `tools/eval_all.py` applies a change in a scratch worktree of
`/repo` HEAD (`VERIF_REPO`; nothing is ever applied to `/repo` itself), runs the quick check of
the change's own property (40 s budget, 16 workers) and, if that stays quiet, the neighbouring
checks listed in the tool. "detected by" names the first check that exits 1 with a VIOLATION
line. %d of %d changes are detected at the quick tier. Changes that were re-based after a later
`fix:` commit touched the same lines say so in their `meta.json` (`ported`). The literal procedure
(`git -C /repo apply seeded/<id>/patch.diff`, `./bin/simctl check <P> --tier quick`,
`git -C /repo checkout -- .`) gives the same answer; it was used as a spot check for C06-1 and
C14-2 on the final machinery (both exit 1 with a VIOLATION line; `/repo` clean afterwards).

| change | what it is | detected by | violation classes |
|---|---|---|---|
%s
How the misses of earlier evaluations were closed (the generator / oracle change, never a
special case for the change): adversarial twin targets whose outputs swap (C02-2 -> fix
e5b3f5b), cp-like `mirror` commands + `swap-files` (C01-4), duplicate dependency declarations
(C03-4), `os.Link` interposition and duplicate files with different exec bits (C06-3), stale
files of the other mode at the destination (C06-4), sibling packages `a-gen`/`a.x` + patterns on
parent directories (C12-3), `testonly` (C12-4), labels that collide when flattened (C13-3),
minimal-mode jobs with cache-disabled builds and tag toggles (C13-4), loss of all blobs + an
environment that turned slow, placed right before the build that needs them (C14-3, C03-2),
loss of the file blobs of one directory (C04-3), excludes whose path is a string prefix of an
input (C01-3), in-place output writes (C07-4), non-hermetic targets re-run under one key
(C08-4), SIGTERM-trapping shells + orphan oracle (C18-3), a slow simulated disk during
interrupts (C18-4), per-build host platform (own sensitivity test: platform dropped from the key).

Wave 7 closed: output-check shells outside the cancellation (C18-6: checks take time and are
tracked), the helper table of a re-run dependency (C15-6), a failed PID write that no longer fails
`Lock` (C10-5: full disk at the PID write in W-lock), a holder that releases the lock when the
interrupt arrives (C10-6: contending build in W-build), a waiter that probes the holder only once
(C18-5, found by the C10 check). Not detected at the quick tier: C03-6 (a directory restore that
returns before a nested sub-directory is back) needs a restored directory with files below a
sub-directory, a dependant executing in the same build and a schedule that starves the stray
walker; measured about 1e-4 per run even with the walker force-starved (`SIM_DEBUG_LOWPRIO`), i.e.
a thorough-tier find.

Behaviour-preserving changes (9 refactors from three sub-agents told to keep every property intact while
perturbing structure: WaitGroup -> channel, reordered goroutine starts, split functions, merged
removal sites of the locker, swapped independent statements ...) are stored under
`seeded/benign/`; `tools/eval_benign.py` runs the relevant quick checks against each and all stay
quiet (the C10 check still recognises its known findings on the refactored locker). N1 is the former
seeded change C15-2, which fix a4b2d86 neutralised (its demonstration passes on the current tree):

| refactor | checks run |
|---|---|
%s""" % (det, len(rows), "".join(rows), "".join(ben) + "\n")
open(os.path.join(HERE, "DESIGN.md"), "w").write(d[:i] + body + d[j:])
print("filled:", det, "/", len(rows), "detected;", len(ben), "benign")
