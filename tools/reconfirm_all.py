#!/usr/bin/env python3
"""reconfirm_all.py [ids]: every seeded change must still break its property on the current /repo HEAD
(later fix: commits can neutralise one): in a scratch worktree apply the patch, copy the demo, run it;
the demo must FAIL with the patch. Prints the ones whose demo passes or that do not apply/build."""
import json, os, subprocess, sys, glob
HERE = os.path.dirname(os.path.dirname(os.path.abspath(__file__)))
env = dict(os.environ, GOFLAGS="-mod=mod", GOPROXY="off", GOSUMDB="off", GOTOOLCHAIN="local")
ids = sys.argv[1:] or sorted(os.path.basename(os.path.dirname(p)) for p in glob.glob(os.path.join(HERE, "seeded/C*/patch.diff")))
wt = "/tmp/reconfirm-%d" % os.getpid()
subprocess.run(["git", "-C", "/repo", "worktree", "add", "-q", "--detach", wt, "HEAD"], check=True)
bad = []
try:
    for id_ in ids:
        d = os.path.join(HERE, "seeded", id_)
        meta = json.load(open(os.path.join(d, "meta.json")))
        subprocess.run("git checkout -q -- . && git clean -fdq internal", shell=True, cwd=wt)
        if subprocess.run(["git", "apply", os.path.join(d, "patch.diff")], cwd=wt).returncode != 0:
            bad.append((id_, "patch does not apply")); print(bad[-1], flush=True); continue
        dest = os.path.join(wt, meta["demo_dest"])
        subprocess.run(["cp", os.path.join(d, "demo_test.go"), dest])
        r = subprocess.run(meta["demo_run"], shell=True, cwd=wt, env=env, stdout=subprocess.PIPE, stderr=subprocess.STDOUT, text=True)
        last = (r.stdout.strip().splitlines() or [""])[-1]
        ok = r.returncode != 0 and "FAIL" in r.stdout and "[build failed]" not in r.stdout and "[setup failed]" not in r.stdout
        print(id_, "demo fails with patch" if ok else "DEMO DOES NOT FAIL: " + last[:120], flush=True)
        if not ok:
            bad.append((id_, last[:200]))
finally:
    subprocess.run(["git", "-C", "/repo", "worktree", "remove", "--force", wt])
print("not breaking any more:", bad)
