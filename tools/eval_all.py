#!/usr/bin/env python3
"""eval_all.py [ids...]: run the quick checks against every seeded change (seeded/<id>/patch.diff applied
in a scratch worktree of /repo, handed to simctl through VERIF_REPO), record which check reports a
violation in seeded/<id>/result.txt, seeded/<id>/meta.json (detected_by) and seeded/RESULTS.md.

A change counts as detected by check P when `simctl check P --tier quick` exits 1 with a VIOLATION line.
The change's own property is tried first; if that check stays quiet, the related checks listed in
FALLBACK are tried (a defect is often visible through a neighbouring property's oracle first).
"""
import json, os, subprocess, sys, glob, re

HERE = os.path.dirname(os.path.dirname(os.path.abspath(__file__)))
FALLBACK = {
    "C01": ["C07", "C02", "C06"], "C02": ["C13", "C01"], "C03": ["C15", "C04"], "C04": ["C05", "C03"],
    "C05": ["C13", "C14", "C04"], "C06": ["C07", "C01"], "C07": ["C08", "C18", "C01"], "C08": ["C07"], "C10": ["C18"],
    "C12": ["C01"], "C13": ["C02"], "C14": ["C05"], "C15": ["C03", "C05"], "C18": ["C10", "C07", "C04"],
}
BUDGET = os.environ.get("BUDGET", "40")
WORKERS = os.environ.get("WORKERS", "16")


def run_check(wt, prop):
    env = dict(os.environ, VERIF_REPO=wt, VERIF_BUDGET_S=BUDGET, VERIF_WORKERS=WORKERS)
    p = subprocess.run([os.path.join(HERE, "bin/simctl"), "check", prop, "--tier", "quick"], env=env,
                       stdout=subprocess.PIPE, stderr=subprocess.STDOUT, text=True)
    lines = [l[:400] for l in p.stdout.splitlines() if re.match(r"^(---|VIOLATION|simctl: C|INFRA|ANOMALY|KNOWN)", l)]
    return p.returncode, lines


def main():
    ids = sys.argv[1:] or sorted(os.path.basename(os.path.dirname(p)) for p in glob.glob(os.path.join(HERE, "seeded/*/patch.diff")))
    rows = []
    for id_ in ids:
        d = os.path.join(HERE, "seeded", id_)
        wt = "/tmp/evalall-%s-%d" % (id_, os.getpid())
        subprocess.run(["git", "-C", "/repo", "worktree", "remove", "--force", wt], stderr=subprocess.DEVNULL)
        if subprocess.run(["git", "-C", "/repo", "worktree", "add", "-q", "--detach", wt, "HEAD"]).returncode != 0:
            print(id_, "INFRA: worktree"); continue
        out = []
        detected = []
        try:
            if subprocess.run(["git", "-C", wt, "apply", os.path.join(d, "patch.diff")]).returncode != 0:
                out.append("patch does not apply to HEAD")
                rows.append((id_, "PATCH-DOES-NOT-APPLY", ""))
                continue
            own = id_.split("-")[0]
            for prop in [own] + FALLBACK.get(own, []):
                rc, lines = run_check(wt, prop)
                out.append("### check %s (budget %ss, %s workers) exit=%d" % (prop, BUDGET, WORKERS, rc))
                out += lines
                if rc == 1:
                    cls = sorted(set(re.sub(r"^.*replays/(C\d\d-[a-z0-9-]*?)-\d+\.json$", r"\1", l) for l in lines if l.startswith("VIOLATION")))
                    detected.append((prop, cls))
                    break
                if rc not in (0, 1):
                    detected.append((prop + ":INFRA", []))
                    break
        finally:
            subprocess.run(["git", "-C", "/repo", "worktree", "remove", "--force", wt])
            open(os.path.join(d, "result.txt"), "w").write("\n".join(out) + "\n")
        mp = os.path.join(d, "meta.json")
        meta = json.load(open(mp))
        meta["detected_by"] = [p for p, _ in detected]
        meta["detected_classes"] = [c for _, cs in detected for c in cs]
        meta["evaluated_at_repo_head"] = subprocess.check_output(["git", "-C", "/repo", "rev-parse", "--short", "HEAD"], text=True).strip()
        json.dump(meta, open(mp, "w"), indent=1)
        rows.append((id_, ",".join(p for p, _ in detected) or "MISSED", "; ".join(c for _, cs in detected for c in cs)))
        print(rows[-1], flush=True)
    # RESULTS.md covers every seeded change (rows of this call replace older rows)
    res = {}
    rp = os.path.join(HERE, "seeded/RESULTS.md")
    if os.path.exists(rp):
        for l in open(rp):
            m = re.match(r"^\| (C\d\d-\d+) \| (.*?) \| (.*?) \| (.*?) \|$", l)
            if m:
                res[m.group(1)] = (m.group(2), m.group(3), m.group(4))
    for id_, det, cls in rows:
        meta = json.load(open(os.path.join(HERE, "seeded", id_, "meta.json")))
        title = meta.get("title", "")
        rd = os.path.join(HERE, "seeded", id_, "README.md")
        if not title and os.path.exists(rd):
            for l in open(rd):
                if l.startswith("#"):
                    title = re.sub(r"^#+\s*", "", l.strip())
                    break
        res[id_] = ((title or meta.get("needs", ""))[:160].replace("|", "/"), det, cls)
    with open(rp, "w") as f:
        f.write("# Seeded changes: which quick check reports a violation\n\n")
        f.write("Produced by tools/eval_all.py (budget %s s per check, %s workers; change applied in a scratch worktree, VERIF_REPO).\n\n" % (BUDGET, WORKERS))
        f.write("| change | what it needs | detected by | violation classes |\n|---|---|---|---|\n")
        for id_ in sorted(res):
            f.write("| %s | %s | %s | %s |\n" % ((id_,) + res[id_]))


main()
